#!/bin/sh
# Runs the repository baseline (guard off) and compares the set of passing tests with BASELINE.json.
cd /repo && /venv/bin/python -m pytest -q -p no:cacheprovider --timeout=900 --continue-on-collection-errors --junitxml=/tmp/vfw-baseline.xml >/dev/null 2>&1
/venv/bin/python - <<'PY'
import json, xml.etree.ElementTree as ET
base=set(json.load(open('/root/.vp/BASELINE.json'))['stable_pass'])
passed=set()
for tc in ET.parse('/tmp/vfw-baseline.xml').getroot().iter('testcase'):
    if not any(ch.tag in ('failure','error','skipped') for ch in tc):
        passed.add(f"{tc.get('classname')}::{tc.get('name')}")
missing=sorted(base-passed)
print(f"baseline tests: {len(base)}; passing now: {len(base&passed)}; missing: {missing[:10]}")
raise SystemExit(1 if missing else 0)
PY
