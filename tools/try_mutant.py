#!/venv/bin/python
"""Confirm a seeded change and run checks against it, in a scratch worktree (never in /repo).

usage: tools/try_mutant.py <patch.diff> <demo.py> <check ids,comma> [--tier quick] [--keep-as seeded/<name> --prop Cxx --needs "..."]
Steps: (1) fresh worktree of /repo HEAD under /tmp, demo must exit 0 there; (2) apply patch, demo must
exit non-zero; (3) the 255 baseline tests must still pass; (4) each listed check is run with
FORD_REPO=<worktree> and must exit 1 with a VIOLATION line.  The worktree is removed at the end.
"""
import argparse, json, os, shutil, subprocess, sys, tempfile, time, xml.etree.ElementTree as ET

ap = argparse.ArgumentParser()
ap.add_argument("patch"); ap.add_argument("demo"); ap.add_argument("checks")
ap.add_argument("--tier", default="quick"); ap.add_argument("--keep-as"); ap.add_argument("--prop"); ap.add_argument("--needs", default="")
ap.add_argument("--skip-tests", action="store_true")
a = ap.parse_args()
VERIF = os.path.dirname(os.path.dirname(os.path.abspath(__file__)))
wt = tempfile.mkdtemp(prefix="ford-mut-", dir="/tmp")
os.rmdir(wt)
def sh(cmd, **kw):
    return subprocess.run(cmd, shell=True, capture_output=True, text=True, **kw)
report = {"patch": a.patch, "ran": []}
try:
    r = sh(f"git -C /repo worktree add --detach {wt} HEAD"); assert r.returncode == 0, r.stderr
    env = dict(os.environ, PYTHONPATH=wt, FORD_DEBUGGING="1", PATH="/venv/bin:" + os.environ["PATH"])
    d0 = sh(f"/venv/bin/python {a.demo}", env=env, cwd=wt)
    report["demo_clean_exit"] = d0.returncode
    r = sh(f"git -C {wt} apply {os.path.abspath(a.patch)}")
    if r.returncode != 0:
        r = sh(f"git -C {wt} apply --3way {os.path.abspath(a.patch)}")
    report["applies"] = r.returncode == 0
    if r.returncode != 0:
        report["apply_error"] = r.stderr[-500:]
        print(json.dumps(report, indent=1)); raise SystemExit(3)
    d1 = sh(f"/venv/bin/python {a.demo}", env=env, cwd=wt)
    report["demo_patched_exit"] = d1.returncode
    report["demo_patched_tail"] = (d1.stdout + d1.stderr)[-400:]
    if not a.skip_tests:
        xml = wt + "-junit.xml"
        sh(f"cd {wt} && /venv/bin/python -m pytest -q -p no:cacheprovider --timeout=900 --continue-on-collection-errors --junitxml={xml}", env=dict(os.environ, PYTHONPATH=wt))
        base = set(json.load(open("/root/.vp/BASELINE.json"))["stable_pass"])
        passed = set()
        for tc in ET.parse(xml).getroot().iter("testcase"):
            if not any(ch.tag in ("failure", "error", "skipped") for ch in tc):
                passed.add(f"{tc.get('classname')}::{tc.get('name')}")
        os.remove(xml)
        report["baseline_missing"] = sorted(base - passed)
    for cid in [c for c in a.checks.split(",") if c]:
        t0 = time.time()
        r = sh(f"./check {cid} --tier {a.tier}", env=dict(os.environ, FORD_REPO=wt), cwd=VERIF)
        viol = [l for l in r.stdout.splitlines() if l.startswith("VIOLATION")]
        sigs = [l.strip() for l in r.stdout.splitlines() if l.strip().startswith("signature=")]
        report["ran"].append({"check": cid, "exit": r.returncode, "violations": viol[:5], "signatures": [s[:200] for s in sigs[:5]],
                              "wall_s": round(time.time() - t0, 1), "stderr_tail": r.stderr[-300:] if r.returncode not in (0, 1) else ""})
finally:
    sh(f"git -C /repo worktree remove --force {wt}")
    shutil.rmtree(wt, ignore_errors=True)
print(json.dumps(report, indent=1))
if a.keep_as:
    dst = os.path.join(VERIF, a.keep_as)
    os.makedirs(dst, exist_ok=True)
    shutil.copy(a.patch, os.path.join(dst, "patch.diff"))
    shutil.copy(a.demo, os.path.join(dst, "demo.py"))
    meta = {"property": a.prop, "needs_to_manifest": a.needs, "confirmed": {
        "demo_exit_clean_tree": report.get("demo_clean_exit"), "demo_exit_patched_tree": report.get("demo_patched_exit"),
        "baseline_tests_missing_with_patch": report.get("baseline_missing"), "applies_to_head": report.get("applies")},
        "checks_run": report["ran"], "caught_by": [x["check"] for x in report["ran"] if x["exit"] == 1],
        "how": "tools/try_mutant.py: scratch worktree of /repo HEAD under /tmp, patch applied there, checks run with FORD_REPO=<worktree>; worktree removed afterwards"}
    json.dump(meta, open(os.path.join(dst, "meta.json"), "w"), indent=1)
