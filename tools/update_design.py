#!/venv/bin/python
"""Regenerate DESIGN.md section 7 from tools/design_sec7.md.tmpl + known_findings.json + seeded/*/meta.json."""
import subprocess
V = "/verif"
tables = subprocess.run(["/venv/bin/python", f"{V}/tools/gen_design_tables.py"], capture_output=True, text=True, check=True).stdout
find_tab, seed_tab = tables.split("\n\n", 1)
sec7 = open(f"{V}/tools/design_sec7.md.tmpl").read().replace("FIND_TABLE", find_tab).replace("SEED_TABLE", seed_tab.strip())
s = open(f"{V}/DESIGN.md").read()
b = s.index("## Appendix A.")
a = s.index("## 7. As built") if "## 7. As built" in s else b
open(f"{V}/DESIGN.md", "w").write(s[:a] + sec7 + s[b:])
