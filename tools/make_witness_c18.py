#!/venv/bin/python
"""Hand-made witnesses for the C18 findings of the third round (declaration text)."""
import json
import sys

sys.path.insert(0, "/verif")
sys.path.insert(0, "/repo")
from vfw import site                      # noqa: E402
from vfw.props import c18                 # noqa: E402

OPTS = {"project": "P", "src_dir": "./src", "output_dir": "./doc", "preprocess": False, "parallel": 0,
        "display": ["public", "private", "protected"], "proc_internals": True, "search": False, "incl_src": True}


def case(src, decls=(), heads=()):
    files = {"src/m.f90": src, "project.md": site.project_file(OPTS, "body\n")}
    return {"nasty": files, "benign": dict(files), "inits": [], "decls": list(decls), "heads": list(heads),
            "classes": ["witness"], "nontrivial": True}


def decl(name, base, kind=None, ln=None, dim=None, attrs=()):
    return {"name": name, "base": base, "kind": kind, "len": ln, "proto": None, "dim": dim, "attrs": sorted(attrs)}


W = {
    # a slash in the type parameters
    "F-C18-3": case("module m\n  !! doc\n  implicit none\n  integer, parameter :: n = 8\n  character(len=n/2) :: half\n  !! half\n"
                    "  integer(kind=16/2) :: wide\n  !! wide\nend module m\n",
                    [decl("half", "character", ln="n/2"), decl("wide", "integer", kind="16/2")]),
    # a character literal in the length expression
    "F-C18-4": case("module m\n  !! doc\n  implicit none\n  character(len=len('a<b')) :: s\n  !! s\nend module m\n",
                    [decl("s", "character", ln="len('a<b')")]),
    # bind(c, name=...) written before result(...)
    "F-C18-5": case("module m\n  !! doc\n  implicit none\ncontains\n  function f() bind(c, name=\"x\") result(r)\n    !! f\n"
                    "    integer :: r\n    r = 1\n  end function f\nend module m\n",
                    [], [{"name": "f", "k": "function", "args": [], "result": "r", "bind": {"name": '"x"'}}]),
}
for fid, c in W.items():
    r = c18.check(c)
    json.dump({"property": "C18", "signature": None, "case": c}, open(f"/verif/findings/{fid}.json", "w"), indent=1)
    print(fid, sorted({f.signature for f in r.failures}))
