"""Builds the C01 regression witnesses (findings/F-C01-*.json): hand-written source in the
triggering spelling + the expected tree derived from a hand-written model."""
import json, sys
sys.path.insert(0, "/verif"); sys.path.insert(0, "/repo")
from vfw import model
from vfw.props import c01

def V(ts, name, **kw):
    d = {"d": "var", "ts": ts, "attrs": kw.pop("attrs", []), "dimattr": kw.pop("dimattr", None), "intent": kw.pop("intent", None),
         "optional": False, "parameter": kw.pop("parameter", False), "access": None,
         "ents": [{"name": name, "dim": None, "init": kw.pop("init", None), "points": False, "doc": None}]}
    return d
I = {"base": "integer", "kind": None}; R = {"base": "real", "kind": None}
C = lambda n: {"base": "character", "len": n, "kind": None}
W = {}
# F-C01-1 common member lookup is case sensitive
W["F-C01-1"] = ({"files": [{"path": "src/a.f90", "units": [{"k": "blockdata", "name": "bd", "decls": [
    V(I, "cnt"), V(R, "tol"), {"d": "common", "blocks": [["blk", ["cnt", "tol"]]]}]}]}]},
    "block data bd\n  implicit none\n  integer CNT\n  real Tol\n  common /blk/ CNT, Tol\nend block data bd\n")
# F-C01-2 parameter statement with character literal
W["F-C01-2"] = ({"files": [{"path": "src/a.f90", "units": [{"k": "subroutine", "name": "s", "args": [], "decls": [
    V(C("5"), "phi", parameter=True, init="'a b''c'")]}]}]},
    "subroutine s()\n  implicit none\n  character(len=5) phi\n  parameter (phi = 'a b''c')\nend subroutine s\n")
# F-C01-3 double precision function prefix / doubleprecision
W["F-C01-3"] = ({"files": [{"path": "src/a.f90", "units": [{"k": "function", "name": "f", "args": [], "rettype": {"base": "double precision", "kind": None},
    "decls": [V({"base": "double precision", "kind": None}, "x")], "exec": []}]}]},
    "double precision function f()\n  implicit none\n  doubleprecision :: x\n  f = 1.0d0\nend function f\n")
# F-C01-4 intent(in out) attribute statement
W["F-C01-4"] = ({"files": [{"path": "src/a.f90", "units": [{"k": "subroutine", "name": "s", "args": ["x"], "decls": [
    V(I, "x", intent="inout")]}]}]},
    "subroutine s(x)\n  implicit none\n  integer x\n  intent(in out) :: x\nend subroutine s\n")
# F-C01-5 end block  data
W["F-C01-5"] = ({"files": [{"path": "src/a.f90", "units": [{"k": "blockdata", "name": "bd", "decls": [
    V(I, "cnt"), {"d": "common", "blocks": [["blk", ["cnt"]]]}]}]}]},
    "block data bd\n  implicit none\n  integer cnt\n  common /blk/ cnt\nend block &\n    & data bd\n")
# F-C01-6 blank common spelled // and before a named block
W["F-C01-6"] = ({"files": [{"path": "src/a.f90", "units": [{"k": "program", "name": "p", "decls": [
    V(I, "a"), V(I, "b"), V(I, "c"), V(I, "d"),
    {"d": "common", "blocks": [[None, ["a"]], ["blk", ["b"]]]}, {"d": "common", "blocks": [["blk2", ["c"]], [None, ["d"]]]}], "exec": []}]}]},
    "program p\n  implicit none\n  integer a, b, c, d\n  common a /blk/ b\n  common /blk2/ c // d\nend program p\n")
for k, (m, text) in W.items():
    case = {"files": {"src/a.f90": text}, "files2": None, "expected": model.canon_project(m), "classes": [], "nontrivial": True}
    r = c01.check(case)
    print(k, [(f.signature, f.message[:150]) for f in r.failures])
    json.dump({"property": "C01", "signature": None, "case": case}, open(f"/verif/findings/{k}.json", "w"), indent=1)
