"""Record a fixed finding: tools/add_finding.py <F-Cxx-n> <case.json> <commit-grep> <signature> <what failed> [<what_fails input>]
<case.json> is either a bare case or a replay file ({"case": ...}).  The witness is checked against /repo (must pass)
and, when FORD_PRE names a pre-fix worktree, against that tree in a sub-process (must fail with the signature)."""
import importlib
import json
import os
import subprocess
import sys

sys.path.insert(0, "/verif")
fid, casefile, grep, sig, what = sys.argv[1:6]
what_fails = sys.argv[6] if len(sys.argv) > 6 else ""
prop = fid.split("-")[1]
if os.environ.get("AF_CHILD"):
    sys.path.insert(0, os.environ["FORD_REPO"])
    mod = importlib.import_module("vfw.props." + prop.lower())
    case = json.load(open(casefile))
    case = case.get("case", case)
    r = mod.check(case)
    print(json.dumps([f.signature for f in r.failures]))
    sys.exit(0)
sys.path.insert(0, "/repo")
mod = importlib.import_module("vfw.props." + prop.lower())
case = json.load(open(casefile))
case = case.get("case", case)
r = mod.check(case)
print("on /repo:", [(f.signature, f.message[:120]) for f in r.failures])
assert not r.failures, "witness still fails on /repo"
pre = os.environ.get("FORD_PRE")
if pre:
    out = subprocess.run([sys.executable, __file__] + sys.argv[1:], env=dict(os.environ, AF_CHILD="1", FORD_REPO=pre),
                         capture_output=True, text=True)
    sigs = json.loads(out.stdout.strip().splitlines()[-1])
    print("on pre-fix tree:", sigs)
    assert sig in sigs, "witness does not fail with the signature on the pre-fix tree"
h = subprocess.run(["git", "-C", "/repo", "log", "--format=%h", "--grep", grep, "-1"], capture_output=True, text=True).stdout.strip()
assert h, grep
json.dump({"property": prop, "signature": sig, "case": case}, open(f"/verif/findings/{fid}.json", "w"), indent=1)
kf = json.load(open("/verif/known_findings.json"))
kf["findings"] = [f for f in kf["findings"] if f["id"] != fid]
kf["findings"].append({"id": fid, "property": prop, "status": f"fixed:{h}", "record": f"fixed: property={prop} {h} {what}",
                       "signature": sig, "what_fails": what_fails, "witness": f"findings/{fid}.json"})
json.dump(kf, open("/verif/known_findings.json", "w"), indent=1)
print("recorded", fid, h)
