#!/venv/bin/python
"""Hand-made minimal witnesses for the C16 findings."""
import json
import sys

sys.path.insert(0, "/verif")
sys.path.insert(0, "/repo")
from vfw.props import c16                 # noqa: E402


def amod(name="amod0", default="public", ents=(), uses=()):
    return {"name": name, "default": default, "uses": list(uses), "ents": list(ents), "tracer": "zq1x16w0"}


def ent(k, name, tracer, access=None, how="stmt", **kw):
    e = {"k": k, "name": name, "access": access, "how": how, "tracer": tracer}
    if k == "type":
        e.update({"comps": [], "extends": None, "bound": None})
    e.update(kw)
    return e


def bmod(uses, doc="", body=""):
    return ("module bmod0\n  !! module of B\n" + "".join(f"  use {u}\n" for u in uses) + "  implicit none\n" + body +
            "contains\n  subroutine bsub0()\n    !! calls into A " + doc + "\n  end subroutine bsub0\nend module bmod0\n")


def ref(page, file, frag, tracer, what):
    return {"page": page, "file": file, "frag": frag, "tracer": tracer, "what": what, "needs_graph": False}


W = {}
t0 = ent("type", "atype0", "zq2x16w0")
A1 = [amod(ents=[t0])]
# F-C16-1: [[atype0]] naming an entity of a local external project
W["F-C16-1"] = c16.finish_case(A1, {"B/src/bmod0.f90": bmod(["amod0"], "[[atype0]]")},
                               [ref("proc/bsub0.html", "type/atype0.html", "", "zq2x16w0", "[[atype0]]"),
                                ref("module/bmod0.html", "module/amod0.html", "", "zq1x16w0", "use amod0")],
                               [], [], ["use", "doclink"], "plain", "relative", ["public"], {}, False)
# F-C16-2: external project given by an absolute path
W["F-C16-2"] = c16.finish_case(A1, {"B/src/bmod0.f90": bmod(["amod0"])},
                               [ref("module/bmod0.html", "module/amod0.html", "", "zq1x16w0", "use amod0")],
                               [], [], ["use"], "plain", "absolute", ["public"], {}, False)
# F-C16-3: modules.json missing / of an unexpected shape
W["F-C16-3"] = c16.finish_case(A1, {"B/src/bmod0.f90": bmod(["amod0"])}, [], [], [], ["use"], "json-missing", "relative",
                               ["public"], {}, False)
W["F-C16-3b"] = c16.finish_case(A1, {"B/src/bmod0.f90": bmod(["amod0"])}, [], [], [], ["use"], "json-wrong-shape", "relative",
                                ["public"], {}, False)
# F-C16-4: private entities in modules.json when A displays them
sec = ent("type", "asecret", "zq3x16w0", access="private", how="attr")
W["F-C16-4"] = c16.finish_case([amod(ents=[t0, sec])], {"B/src/bmod0.f90": bmod(["amod0"], "[[asecret]]")},
                               [ref("module/bmod0.html", "module/amod0.html", "", "zq1x16w0", "use amod0")],
                               [{"page": "proc/bsub0.html", "text": "asecret", "tracer": "zq3x16w0"}], [],
                               ["use", "private-name"], "plain", "relative", ["public", "private"], {}, False)
# F-C16-5 (open): binding inherited from a private parent type that A does not display
par = ent("type", "abase", "zq4x16w0", access="private", how="attr")
par["bound"] = {"name": "abind0", "target": "abase_impl", "tracer": "zq5x16w0"}
chi = ent("type", "achild", "zq6x16w0", access="public", how="attr", extends="abase")
body = "  type, extends(achild) :: btype0\n    !! a type of B\n    integer :: own\n  end type btype0\n"
W["F-C16-5"] = c16.finish_case([amod(default="private", ents=[par, chi])], {"B/src/bmod0.f90": bmod(["amod0"], "", body)},
                               [ref("type/btype0.html", "type/achild.html", "", "zq6x16w0", "extends(achild)")],
                               [], [], ["use", "extends"], "plain", "relative", ["public"], {}, False)
for fid, case in W.items():
    r = c16.check(case)
    sigs = sorted({f.signature for f in r.failures})
    json.dump({"property": "C16", "signature": None, "case": case}, open(f"/verif/findings/{fid}.json", "w"), indent=1)
    print(fid, sigs)
