#!/venv/bin/python
"""Hand-made witnesses for the C14 findings of the second round (fixed-form line classification)."""
import json
import sys

sys.path.insert(0, "/verif")
sys.path.insert(0, "/repo")
from vfw.props import c14                 # noqa: E402

FREE = """subroutine solve(a, b)
  integer a, b
  integer total
  total = a + b
end subroutine solve
"""


def case(fixed):
    return {"free": {"src/solve.f90": FREE}, "fixed": {"src/solve.f": fixed}, "limit": True, "classes": ["witness"],
            "nontrivial": True, "skip": False}


W = {
    # a line of eight blanks between a statement and its continuation line
    "F-C14-2": "      subroutine solve(a,\n        \n     &  b)\n      integer a, b\n      integer total\n      total = a + b\n      end subroutine solve\n",
    # a `!` comment that starts in the statement field, between a statement and its continuation line
    "F-C14-3": "      subroutine solve(a,\n       ! the second argument follows\n     &  b)\n      integer a, b\n      integer total\n      total = a + b\n      end subroutine solve\n",
    # a trailing comment on a line that is continued
    "F-C14-4": "      subroutine solve(a, ! first argument\n     &  b)\n      integer a, b\n      integer total\n      total = a + b\n      end subroutine solve\n",
}
for fid, fixed in W.items():
    c = case(fixed)
    r = c14.check(c)
    json.dump({"property": "C14", "signature": None, "case": c}, open(f"/verif/findings/{fid}.json", "w"), indent=1)
    print(fid, sorted({f.signature for f in r.failures}))
