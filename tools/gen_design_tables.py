#!/venv/bin/python
"""Emit the Markdown tables of DESIGN.md §7 from known_findings.json and seeded/*/meta.json."""
import json
import glob
import os
import re

V = "/verif"
k = json.load(open(f"{V}/known_findings.json"))["findings"]
print("| id | status | what failed (witness: `findings/<id>.json`) |")
print("|----|--------|------|")
for f in sorted(k, key=lambda f: (f["property"], f["id"])):
    rec = f.get("record") or f.get("what_fails")
    rec = re.sub(r"^fixed: property=C\d+ \w+ ", "", rec)
    st = f["status"].replace("fixed:", "fixed in `") + ("`" if f["status"].startswith("fixed") else "")
    print(f"| {f['id']} | {st} | {rec.replace('|', '/')} |")
print()
print("| seeded change | what it breaks | needs to manifest | caught by |")
print("|---|---|---|---|")
for d in sorted(glob.glob(f"{V}/seeded/*")):
    m = json.load(open(d + "/meta.json"))
    name = os.path.basename(d)
    summ = (m.get("summary") or "").split(". ")[0][:220]
    needs = (m.get("needs_to_manifest") or "")[:160]
    caught = m.get("caught_by")
    if caught is None:
        caught = [c["check"] for c in m.get("checks_run", []) if c.get("exit") == 1]
    print(f"| {name} | {summ.replace('|', '/')} | {needs.replace('|', '/')} | {', '.join(caught) or 'NOT CAUGHT'} |")
