import json, subprocess, sys
sys.path.insert(0, "/verif"); sys.path.insert(0, "/repo")
from vfw import model
from vfw.props import c03
def V(name, doc):
    return {"d": "var", "ts": {"base": "integer", "kind": None}, "attrs": [], "dimattr": None, "intent": None, "optional": False,
            "parameter": False, "access": None, "ents": [{"name": name, "dim": None, "init": None, "points": False, "doc": doc}]}
W = {}
# F-C03-1: blank line inside a continued statement after a doc -> metadata of the statement's own doc lost
W["F-C03-1"] = ({"files": [{"path": "src/a.f90", "units": [{"k": "module", "name": "m", "decls": [
    V("first", [" zq1x1w0"]), V("second", [" version: zm2x1w0", "", " zq2x2w0 zq2x2w1"])], "procs": []}]}]},
    "module m\ninteger :: first\n  !! zq1x1w0\ninteger :: &\n\n   & second\n  !! version: zm2x1w0\n  !!\n  !! zq2x2w0 zq2x2w1\nend module m\n")
# F-C03-2: summary metadata rendered one character per line
W["F-C03-2"] = ({"files": [{"path": "src/a.f90", "units": [{"k": "module", "name": "m", "doc": [" summary: zs1x1w0 zs1x1w1", "", " zq1x2w0"], "decls": [], "procs": []}]}]},
    "module m\n  !! summary: zs1x1w0 zs1x1w1\n  !!\n  !! zq1x2w0\nend module m\n")
# F-C03-3: metadata of inherited components wiped
t = lambda name, ext, comps: {"d": "type", "name": name, "abstract": False, "extends": ext, "access": None, "sequence": False,
                              "private_comps": False, "comps": comps, "private_binds": False, "binds": [], "finals": [], "doc": None}
W["F-C03-3"] = ({"files": [{"path": "src/a.f90", "units": [{"k": "module", "name": "m", "decls": [
    t("base", None, [V("c1", [" since: zm1x1w0", "", " zq1x2w0"])]), t("child", "base", [V("c2", None)])], "procs": []}]}]},
    "module m\ntype base\ninteger :: c1\n  !! since: zm1x1w0\n  !!\n  !! zq1x2w0\nend type base\ntype, extends(base) :: child\ninteger :: c2\nend type child\nend module m\n")
recs = {"F-C03-1": ("empty documentation line for a blank line inside a continued", "attach:doctr", "a blank line inside a continued statement after a doc comment put an empty line before the statement's own docs: its leading metadata was shown as text"),
        "F-C03-2": ("summary:` metadata as text", "render:doctr", "an entity's `summary:` metadata was rendered one character per line"),
        "F-C03-3": ("metadata of components inherited", "attach:doctr", "metadata of a type's components was reset to defaults when another type extends it")}
kf = json.load(open("/verif/known_findings.json"))
for k, (m, text) in W.items():
    case = {"part": "A", "files": {"src/a.f90": text}, "marks": None, "expected": model.canon_project(m), "classes": [], "nontrivial": True}
    r = c03.check(case)
    print(k, [(f.signature, f.message[:150]) for f in r.failures])
    json.dump({"property": "C03", "signature": None, "case": case}, open(f"/verif/findings/{k}.json", "w"), indent=1)
    grep, sig, what = recs[k]
    h = subprocess.run(["git", "-C", "/repo", "log", "--format=%h", "--grep", grep, "-1"], capture_output=True, text=True).stdout.strip()
    assert h, grep
    if not any(f["id"] == k for f in kf["findings"]):
        kf["findings"].append({"id": k, "property": "C03", "status": f"fixed:{h}", "record": f"fixed: property=C03 {h} {what}",
                               "signature": sig, "what_fails": text.replace("\n", " / ")[:120], "witness": f"findings/{k}.json"})
json.dump(kf, open("/verif/known_findings.json", "w"), indent=1)
