#!/venv/bin/python
"""Hand-made minimal witnesses for the C13 findings (model -> files + expectations)."""
import json
import sys

sys.path.insert(0, "/verif")
sys.path.insert(0, "/repo")
from vfw import site                      # noqa: E402
from vfw.props import c13                 # noqa: E402

BIG = c13.BIG


def base(**kw):
    m = {"mods": [], "types": [], "procs": [], "generics": [], "mpis": [], "subs": [], "tops": [], "progs": [], "bds": [],
         "placement": {}, "nfiles": 1,
         "options": {"graph_maxdepth": 10000, "graph_maxnodes": BIG, "show_proc_parent": False, "coloured_edges": False,
                     "graph_dir": False, "hidden_mode": False}}
    m.update(kw)
    return m


def mod(i, uses=(), meta=None):
    return {"name": f"m{i}", "uses": list(uses), "ext": [], "meta": meta or {}}


def proc(k, modi, calls=(), meta=None):
    return {"name": f"p{k}", "mod": modi, "argtype": None, "calls": [list(c) for c in calls], "use": None, "private": False,
            "meta": meta or {}, "generic": None}


def typ(k, modi, extends=None, comps=(), meta=None):
    return {"name": f"t{k}", "mod": modi, "extends": extends, "comps": [list(c) for c in comps], "meta": meta or {},
            "binds": [], "gbinds": []}


def case_of(m):
    files = c13.render(m)
    o = m["options"]
    opts = {"project": "G", "src_dir": "./src", "graph": True, "parallel": 0, "preprocess": False,
            "graph_maxdepth": o["graph_maxdepth"], "graph_maxnodes": o["graph_maxnodes"],
            "show_proc_parent": o["show_proc_parent"], "coloured_edges": o["coloured_edges"], "search": False,
            "proc_internals": o.get("proc_internals", True), "display": ["public", "private", "protected"]}
    files["project.md"] = site.project_file(opts)
    exp, cyc, trunc = c13.expectations(m)
    return {"files": files, "expected": exp, "graph_dir": False, "classes": ["witness"], "nontrivial": True}


W = {}
# F-C13-1: implementation written `module procedure q0 ... end procedure`
m = base(mods=[mod(0)], procs=[proc(0, 0, [("mpi", "q0")])],
         subs=[{"name": "s0", "anc": 0, "parent": None, "uses": [], "meta": {}}],
         mpis=[{"name": "q0", "mod": 0, "sub": "s0", "calls": [["ext", "ext_sub0"]], "form": "procedure", "meta": {}, "impl_meta": {}}],
         placement={"module:m0": 0, "submodule:s0": 0})
W["F-C13-1"] = m
# F-C13-2: project file graph
m = base(mods=[mod(0), mod(1, [0])], nfiles=2, placement={"module:m0": 0, "module:m1": 1})
W["F-C13-2"] = m
# F-C13-3: graph: false entities as neighbours in project-wide graphs
m = base(mods=[mod(0, meta={"graph": "false"}), mod(1, [0])],
         types=[typ(0, 0, meta={"graph": "false"}), typ(1, 1, extends="t0")],
         procs=[proc(0, 0, meta={"graph": "false"}), proc(1, 1, [("proc", "p0")])],
         placement={"module:m0": 0, "module:m1": 0})
W["F-C13-3"] = m
# F-C13-4: table fallback with a root that refers to itself
m = base(mods=[mod(0)],
         types=[typ(0, 0, comps=[("next", "t0", "type")]), typ(1, 0, extends="t0"), typ(2, 0, extends="t0")],
         procs=[proc(0, 0, [("proc", "p0")]), proc(1, 0, [("proc", "p0")]), proc(2, 0, [("proc", "p0")])],
         placement={"module:m0": 0})
m["options"]["graph_maxnodes"] = 2
W["F-C13-4"] = m

for fid, m in W.items():
    case = case_of(m)
    r = c13.check(case)
    sigs = sorted({f.signature for f in r.failures})
    json.dump({"property": "C13", "signature": None, "case": case}, open(f"/verif/findings/{fid}.json", "w"), indent=1)
    print(fid, sigs)


# ---- second batch (type-bound generics, internal procedures)
def bproc(k, modi, tname, extra, calls=()):
    p = proc(k, modi, calls)
    p.update({"fn": False, "bound": {"type": tname, "extra": extra}, "internals": []})
    return p


def plain(k, modi, calls=(), internals=()):
    p = proc(k, modi, calls)
    p.update({"fn": False, "bound": None, "internals": [dict(x) for x in internals]})
    return p


def gtype():
    t = typ(0, 0)
    t["binds"] = [{"name": "bp0", "target": "p0"}, {"name": "bp1", "target": "p1"}]
    t["gbinds"] = [{"name": "gbt0", "specs": ["bp0", "bp1"]}]
    return t


W2 = {}
# F-C13-5: generic binding -> specific edges are dashed in 'calls' graphs but solid in 'called by' graphs
m = base(mods=[mod(0)], types=[gtype()],
         procs=[bproc(0, 0, "t0", "integer"), bproc(1, 0, "t0", "real"), plain(2, 0, [("gbind", "t0%gbt0")])],
         placement={"module:m0": 0})
W2["F-C13-5"] = m
# F-C13-6: a generic binding / an internal procedure that nobody calls is missing from 'called by' graphs
m = base(mods=[mod(0)], types=[gtype()],
         procs=[bproc(0, 0, "t0", "integer"), bproc(1, 0, "t0", "real"),
                plain(2, 0, [], internals=[{"name": "i0", "calls": [["proc", "p3"]]}]), plain(3, 0)],
         placement={"module:m0": 0})
m["options"]["proc_internals"] = True
W2["F-C13-6"] = m
for fid, m in W2.items():
    m["options"].setdefault("proc_internals", True)
    case = case_of(m)
    r = c13.check(case)
    sigs = sorted({f.signature for f in r.failures})
    json.dump({"property": "C13", "signature": None, "case": case}, open(f"/verif/findings/{fid}.json", "w"), indent=1)
    print(fid, sigs)
