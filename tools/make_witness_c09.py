import json, subprocess, sys
sys.path.insert(0, "/verif"); sys.path.insert(0, "/repo")
from vfw import site
from vfw.props import c09
BASE = {"project": "W", "src_dir": "./src", "output_dir": "./doc", "preprocess": False, "parallel": 0}
W = {
 "F-C09-1": ({"src/a.f90": "module m\ninteger :: a, b\nnamelist /nml/ a, b\n  !! a namelist\nend module m\n", "src/b.f90": "module m2\nend module m2\n"}, {}),
 "F-C09-2": ({"src/a.f90": "module m\ninteger :: a\nend module m\n"}, {}),
 "F-C09-3": ({"src/a.f90": "module m\ninterface gen\nmodule procedure s1\nend interface gen\ncontains\nsubroutine s1(a)\ninteger, intent(in) :: a\nend subroutine s1\nend module m\n", "src/b.f90": "module m2\nend module m2\n"}, {}),
 "F-C09-4": ({"src/a.f90": "module m\ntype t\ninteger :: c\ncontains\nprocedure, nopass :: go => impl\nend type t\ncontains\nsubroutine impl()\nend subroutine impl\nend module m\n", "src/b.f90": "module m2\nend module m2\n"}, {}),
 "F-C09-5": ({"src/a.f90": "module m\ntype, private :: hidden\ninteger :: c\ncontains\nprocedure, nopass :: b => impl\ngeneric :: g => b\nend type hidden\ncontains\nsubroutine impl(a)\ninteger, intent(in) :: a\nend subroutine impl\nsubroutine host()\ntype, extends(hidden) :: shown\ninteger :: d\nend type shown\nend subroutine host\nend module m\n", "src/b.f90": "module m2\nend module m2\n"}, {"proc_internals": True}),
}
recs = {"F-C09-1": ("document namelists declared in the specification part", "fragment:module->module#namelist", "namelist declared in a module: sidebar anchor and namelist page link dangling"),
        "F-C09-2": ("do not link the list of source files from the front page", "missing:index->lists/files.html", "front page of a single-file project links lists/files.html, which is not written"),
        "F-C09-3": ("define the anchors the sidebar of a generic interface", "fragment:interface->interface#moduleprocedure", "sidebar of a generic interface page links #moduleprocedure-<name> anchors that are never defined"),
        "F-C09-4": ("targets of type-bound procedure bindings relative", "absolute:type->proc", "`procedure :: a => target` rendered the target with an absolute file-system URL"),
        "F-C09-5": ("do not link to members of entities that are not displayed", "missing:proc->type#boundprocedure", "bound procedure inherited from a hidden type linked to the hidden type's (unwritten) page")}
kf = json.load(open("/verif/known_findings.json"))
for k, (files, extra) in W.items():
    opts = dict(BASE, **extra)
    files = dict(files)
    files["project.md"] = site.project_file(opts, "witness\n")
    case = {"files": files, "options": opts, "classes": [], "nondefault": 1}
    r = c09.check(case)
    print(k, [(f.signature, f.message[:120]) for f in r.failures])
    json.dump({"property": "C09", "signature": None, "case": case}, open(f"/verif/findings/{k}.json", "w"), indent=1)
    grep, sig, what = recs[k]
    h = subprocess.run(["git", "-C", "/repo", "log", "--format=%h", "--grep", grep, "-1"], capture_output=True, text=True).stdout.strip()
    assert h, grep
    if not any(f["id"] == k for f in kf["findings"]):
        kf["findings"].append({"id": k, "property": "C09", "status": f"fixed:{h}", "record": f"fixed: property=C09 {h} {what}",
                               "signature": sig, "what_fails": what, "witness": f"findings/{k}.json"})
json.dump(kf, open("/verif/known_findings.json", "w"), indent=1)
