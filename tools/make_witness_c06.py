"""C06/C07 regression witnesses: hand-written sources + hand-written expected resolutions."""
import json, sys
sys.path.insert(0, "/verif"); sys.path.insert(0, "/repo")
from vfw.props import c06
M0 = "module m0\nimplicit none\ntype t1\ninteger :: c\nend type t1\ninteger :: v1\ncontains\nsubroutine s1()\nend subroutine s1\nend module m0\n"
W = {}
W["F-C06-1"] = ({"src/m0.f90": M0,
  "src/p.f90": "program p\nuse m0, tt => t1, ss => s1\nuse ext_stub, only: t1, s1\nimplicit none\ntype(tt) :: a\ntype(t1) :: b\ncall ss()\ncall s1()\nend program p\n"},
  [{"scope": ["p"], "ifbody": None, "slot": "var", "at": "a", "name": "tt", "expect": "m0/t1", "via_rename": True},
   {"scope": ["p"], "ifbody": None, "slot": "var", "at": "b", "name": "t1", "expect": None},
   {"scope": ["p"], "ifbody": None, "slot": "calls", "at": "calls", "name": ["ss", "s1"], "expect": ["m0/s1", "unresolved:s1"], "via_rename": True}],
  "module ext_stub\ntype t1\ninteger :: q\nend type\ncontains\nsubroutine s1()\nend subroutine\nend module\n")
W["F-C06-2"] = ({"src/m0.f90": M0,
  "src/m1.f90": "module m1\nuse m0, only: t1, v1\nimplicit none\nprivate :: t1\nend module m1\n",
  "src/p.f90": "program p\nuse m1\nuse ext_stub, only: t1\nimplicit none\ntype(t1) :: b\nnamelist /nl/ v1\nend program p\n"},
  [{"scope": ["p"], "ifbody": None, "slot": "var", "at": "b", "name": "t1", "expect": None},
   {"scope": ["p"], "ifbody": None, "slot": "namelist", "at": "nl", "name": "v1", "expect": "m0/v1"}],
  "module ext_stub\ntype t1\ninteger :: q\nend type\nend module\n")
W["F-C07-1"] = ({"src/m0.f90": M0,
  "src/m1.f90": "module m1\nuse ext_stub, only: t1\nimplicit none\ntype(t1) :: holder\ncontains\nsubroutine inner()\nuse m0, only: t1\ntype(t1) :: loc\nend subroutine inner\nsubroutine sibling()\nuse ext_stub, only: t1\ntype(t1) :: other\nend subroutine sibling\nend module m1\n"},
  [{"scope": ["m1"], "ifbody": None, "slot": "var", "at": "holder", "name": "t1", "expect": None},
   {"scope": ["m1", "inner"], "ifbody": None, "slot": "var", "at": "loc", "name": "t1", "expect": "m0/t1"},
   {"scope": ["m1", "sibling"], "ifbody": None, "slot": "var", "at": "other", "name": "t1", "expect": None}],
  "module ext_stub\ntype t1\ninteger :: q\nend type\nend module\n")
for k, (files, refs, stub) in W.items():
    case = {"files": files, "refs": refs, "stub": stub, "classes": [], "nontrivial": True, "n_orders": 6, "order_seed": 1}
    r = c06.check(case)
    print(k, [(f.signature, f.message[:160]) for f in r.failures])
    json.dump({"property": k[2:5], "signature": None, "case": case}, open(f"/verif/findings/{k}.json", "w"), indent=1)

# ---- C07 witnesses added later
W2 = {}
W2["F-C07-2"] = ({"src/m.f90": "module m\nimplicit none\ncontains\nsubroutine beta()\nend subroutine beta\nsubroutine host()\ncall beta()\ncontains\nsubroutine beta()\nend subroutine beta\nend subroutine host\nend module m\n"},
  [{"scope": ["m", "host"], "ifbody": None, "slot": "calls", "at": "calls", "name": ["beta"], "expect": ["m/host/beta"]}], "")
W2["F-C07-3"] = ({"src/m.f90": "module m\nuse ext_stub, only: delta\nimplicit none\ninterface gen\nprocedure delta\nend interface gen\nprivate :: delta\nend module m\n",
                  "src/other.f90": "module other\nimplicit none\ncontains\nsubroutine delta()\nend subroutine delta\nend module other\n"},
  [{"scope": ["m"], "ifbody": None, "slot": "specific", "at": "gen", "name": "delta", "expect": None}],
  "module ext_stub\ncontains\nsubroutine delta()\nend subroutine\nend module\n")
SUBM = lambda a: (f"module {a}\nimplicit none\ninterface\nmodule subroutine work()\nend subroutine work\nend interface\nend module {a}\n",
                  f"submodule ({a}) impl\ncontains\nmodule subroutine work()\nend subroutine work\nend submodule impl\n",
                  f"submodule ({a}:impl) deep_{a}\ninteger :: v\nend submodule deep_{a}\n")
fa, fb = SUBM("moda"), SUBM("modb")
W2["F-C07-4"] = ({"src/moda.f90": fa[0], "src/moda_impl.f90": fa[1], "src/moda_deep.f90": fa[2],
                  "src/modb.f90": fb[0], "src/modb_impl.f90": fb[1], "src/modb_deep.f90": fb[2]},
  [{"scope": ["moda:deep_moda"], "ifbody": None, "slot": "subparent", "at": "deep_moda", "name": "impl", "expect": "moda:impl"},
   {"scope": ["modb:deep_modb"], "ifbody": None, "slot": "subparent", "at": "deep_modb", "name": "impl", "expect": "modb:impl"},
   {"scope": ["moda:impl"], "ifbody": None, "slot": "mpiface", "at": "work", "name": "work", "expect": "moda/work"},
   {"scope": ["modb:impl"], "ifbody": None, "slot": "mpiface", "at": "work", "name": "work", "expect": "modb/work"}], "")
for k, (files, refs, stub) in W2.items():
    case = {"files": files, "refs": refs, "stub": stub, "classes": [], "nontrivial": True, "n_orders": 6, "order_seed": 1}
    r = c06.check(case)
    print(k, [(f.signature, f.message[:160]) for f in r.failures])
    json.dump({"property": "C07", "signature": None, "case": case}, open(f"/verif/findings/{k}.json", "w"), indent=1)
