"""Generators of abstract program models (see model.py), driven by a Chooser.

Everything generated is meant to be valid Fortran 2008 by construction (checked by the
gfortran gate on failing cases and on samples).  `cfg` switches feature groups on/off; known
findings switch *constructs* off through cfg["excl"].
"""
from __future__ import annotations

from vfw.choose import Chooser

INT_KINDS = ["1", "2", "4", "8", "selected_int_kind(9)", "merge(4, 8, 1 < 2)"]
REAL_KINDS = ["4", "8", "selected_real_kind(6, 37)", "kind(1.0d0)"]
ARG_SIG_TYPES = [  # distinguishable single-argument signatures for generic resolution
    {"base": "integer", "kind": None}, {"base": "real", "kind": None}, {"base": "logical", "kind": None},
    {"base": "complex", "kind": None}, {"base": "character", "len": "*", "kind": None},
    {"base": "double precision", "kind": None},
]

DEFAULT_CFG = {
    "max_files": 3, "max_units": 2, "types": True, "interfaces": True, "enums": True, "commons": True,
    "namelists": True, "submodules": True, "blockdata": True, "programs": True, "extprocs": True,
    "internal_procs": True, "exec_decoys": True, "docs": False, "late_access": False, "access": True,
    "bind": True, "literals": "plain", "excl": (),
}


class Gen:
    def __init__(self, ch: Chooser, cfg=None):
        self.ch = ch
        self.cfg = dict(DEFAULT_CFG, **(cfg or {}))
        self.excl = set(self.cfg.get("excl") or ())
        self.counter = 0
        self.docn = 0
        self.entity_docs = {}     # tracer -> description (for C03)

    # ---- names / docs
    def name(self, prefix):
        self.counter += 1
        if prefix in ("t", "wp") and "keyword_names" not in self.excl and self.ch.bool(1, 5):
            # type and kind names that contain a procedure prefix word (`type(pure_t3) function f()`)
            return f"{self.ch.choice(['pure', 'module', 'elemental', 'recursive', 'impure'])}_{prefix}{self.counter}"
        return f"{prefix}{self.counter}"

    def opname(self):
        self.counter += 1
        n, out = self.counter, ""
        while n:
            out += "abcdefghij"[n % 10]
            n //= 10
        return "op" + out

    def doc(self, what):
        """Optional doc comment: list of doc lines made of unique tracer words."""
        if not self.cfg["docs"] or not self.ch.bool(3, 4):
            return None
        maker = self.cfg.get("doc_maker")
        self.docn += 1
        if maker:
            return maker(self, what, self.docn)
        n = self.ch.count(1, 3)
        lines = []
        for i in range(n):
            lines.append(" " + " ".join(f"zq{self.docn}x{i}w{j}" for j in range(self.ch.count(1, 3))))
        self.entity_docs[self.docn] = what
        return lines

    # ---- literals / expressions
    def int_lit(self):
        return self.ch.choice(["0", "1", "42", "-3", "7_8" if False else "12"])

    def char_lit(self):
        mode = self.cfg["literals"]
        if mode == "plain":
            return self.ch.choice(["'abc'", '"xyz"', "'a b'", "''", "'it''s'", '"say ""hi"""'])
        return self.ch.choice(self.cfg.get("literal_pool") or ["'abc'"])

    def init_for(self, ts, dim):
        base = ts["base"]
        ch = self.ch
        if dim:
            typed = dim == "(3)" and "typed_constructor" not in self.excl     # an array constructor with a type spec: a second `::`
            if base == "integer":
                return ch.choice(["0", "[1, 2, 3]" if dim == "(3)" else "0", "(/ 1, 2, 3 /)" if dim == "(3)" else "1",
                                  "[integer :: 1, 2, 3]" if typed else "1"])
            if base == "real":
                return ch.choice(["0.0", "1.5", "[real :: 1.0, 2.0, 3.0]" if typed else "0.0"])
            return None
        if base == "integer":
            if ts.get("kind"):
                return ch.choice(["0", "1", "42", "2*3", "(1+2)*3"])
            return ch.choice(["0", "1", "42", "2*3", "(1+2)*3", "huge(1)", "10**2"])
        if base == "real":
            k = ts.get("kind")
            if k and not k.isdigit() and k.isidentifier():        # (a kind suffix is a digit string or a named constant)
                return ch.choice([f"1.0_{k}", f"0.5_{k}"])
            return ch.choice(["0.0", "1.5", "1.0e-3", "3.14159", "2.0*3.0"])
        if base == "double precision":
            return ch.choice(["0.0d0", "1.5d0", "1.0d-3"])
        if base == "complex":
            return ch.choice(["(0.0, 1.0)", "(1.0, -1.0)"])
        if base == "logical":
            return ch.choice([".true.", ".false.", ".not. .true."])
        if base == "character":
            return self.char_lit()
        return None

    # ---- type specs
    def typespec(self, scope, allow_derived=True, for_arg=False, allow_proc=False):
        ch = self.ch
        opts = [(4, "integer"), (4, "real"), (1, "double precision"), (1, "complex"), (2, "logical"), (3, "character")]
        if "double complex" not in self.excl and self.cfg.get("double_complex", False):
            opts.append((1, "double complex"))
        tinfo = scope.get("_typeinfo", {})
        types = [t for t in scope.get("_types", []) if not tinfo.get(t, {}).get("abstract")]
        if allow_derived and types:
            opts.append((3, "type"))
        base = ch.weighted(opts)
        ts = {"base": base, "kind": None}
        if base == "integer" and ch.bool(1, 3):
            ts["kind"] = ch.choice(INT_KINDS + [k for k in scope.get("_kinds", [])])
        elif base == "real" and ch.bool(1, 2):
            ts["kind"] = ch.choice(REAL_KINDS + [k for k in scope.get("_kinds", [])])
        elif base == "complex" and ch.bool(1, 3):
            ts["kind"] = ch.choice(REAL_KINDS)
        elif base == "logical" and ch.bool(1, 4):
            ts["kind"] = ch.choice(["1", "4"])
        elif base == "character":
            ts["len"] = ch.weighted([(2, None), (4, ch.choice(["10", "5", "80"])), (2, "*" if for_arg else "20"),
                                     (1, "len_" if False else "3")] +
                                    ([(2, ch.choice(["max(2, 3)", "2*4", "merge(3, 5, 1 < 2)", "8/2", "min(4, 6, 8)", "len('abcd')"]))]
                                     if "len_expr" not in self.cfg.get("excl", ()) else []))
            if ch.bool(1, 8):
                ts["kind"] = "1"
        elif base == "type":
            ts["proto"] = ch.choice(types)
        return ts

    # ---- variable declarations
    def var_decl(self, scope, where, names=None, arg=False):
        """where: module | local | component | arg | program | blockdata"""
        ch = self.ch
        d = {"d": "var", "attrs": [], "dimattr": None, "intent": None, "optional": False,
             "parameter": False, "access": None, "ents": []}
        ts = self.typespec(scope, for_arg=arg)
        d["ts"] = ts
        derived = ts["base"] == "type"
        pure = scope.get("_pure", False)
        elemental = scope.get("_elemental", False)
        n = len(names) if names else ch.weighted([(3, 1), (2, 2), (1, 3)])
        names = names or [self.name("v") for _ in range(n)]
        # dimension
        dim_kind = None
        if not elemental or not arg:
            dim_kind = ch.weighted([(5, None), (2, "explicit"), (2, "deferred" if not arg else "assumed")])
        if where == "blockdata":
            dim_kind = dim_kind if dim_kind == "explicit" else None
        assumed_len = ts.get("len") == "*"
        if where == "component" and assumed_len:
            ts["len"] = "8"
        if where == "arg":
            d["intent"] = ch.weighted([(2, "in"), (1, "out"), (1, "inout"), (1, None)]) if not pure else \
                (ch.choice(["in", "inout", "out"]) if scope.get("k") == "subroutine" else "in")
            if derived and d["intent"] == "out" and pure:
                d["intent"] = "inout"
            if elemental and d["intent"] is None:
                d["intent"] = "in"
            if ch.bool(1, 5) and not elemental:
                d["optional"] = True
            if dim_kind == "assumed":
                d["dimattr"] = ch.choice(["(:)", "(:,:)", "(*)"])
                if d["dimattr"] != "(*)" and ch.bool(1, 6):
                    d["attrs"].append("contiguous")
            elif dim_kind == "explicit":
                d["dimattr"] = ch.choice(["(3)", "(2,2)", "(0:4)"])
            if not d["dimattr"] and not d["optional"] and d["intent"] in ("in", None) and ts["base"] != "character" \
                    and not derived and ch.bool(1, 6):
                d["attrs"].append("value")
            elif ch.bool(1, 6) and d["intent"] != "out":
                d["attrs"].append("target")
            if ch.bool(1, 10) and d["intent"] != "in" and not pure and "value" not in d["attrs"]:
                d["attrs"].append(ch.choice(["volatile", "asynchronous"]))
        else:
            if assumed_len:
                ts["len"] = "16"
            param_ok = where in ("module", "local", "program") and not derived and ts["base"] != "complex"
            if param_ok and ch.bool(1, 5):
                d["parameter"] = True
                if ts["base"] == "character" and ch.bool():
                    ts["len"] = "*"
                dim_kind = "explicit3" if dim_kind == "explicit" and ts["base"] in ("integer", "real") else None
            if dim_kind in ("explicit", "explicit3"):
                d["dimattr"] = "(3)" if dim_kind == "explicit3" else ch.choice(["(3)", "(2,2)", "(0:4)", "(10)"])
            elif dim_kind == "deferred" and where != "blockdata":
                d["dimattr"] = ch.choice(["(:)", "(:,:)"])
                d["attrs"].append(ch.choice(["allocatable", "pointer"]))
            elif where != "blockdata" and not d["parameter"] and ch.bool(1, 8):
                d["attrs"].append(ch.choice(["allocatable", "pointer"]))
            if ts.get("len") == ":":
                pass
            if not d["parameter"] and where in ("module", "local", "program") and "pointer" not in d["attrs"] \
                    and ch.bool(1, 6):
                d["attrs"].append("target")
            if where in ("module", "local", "program") and not d["parameter"] and not pure and ch.bool(1, 6):
                d["attrs"].append("save")
            if where in ("module",) and not d["parameter"] and ch.bool(1, 10):
                d["attrs"].append("volatile")
            if where == "module" and not d["parameter"] and len(names) == 1 and ts["base"] in ("integer", "real") \
                    and not ts.get("kind") and not any(a in d["attrs"] for a in ("allocatable", "pointer")) \
                    and "bind_name" not in self.cfg.get("excl", ()) and ch.bool(1, 8):
                # a C binding label: a character literal inside an attribute
                d["attrs"].append(f'bind(c, name="Cname_{names[0]}")')
            if where == "module" and self.cfg["access"]:
                d["access"] = ch.weighted([(5, None), (2, "public"), (2, "private")] +
                                          ([(2, "protected")] if not d["parameter"] else []))
            if where == "component" and self.cfg["access"]:
                d["access"] = ch.weighted([(6, None), (1, "public"), (1, "private")])
        # entities
        for nm in names:
            # (one doc comment per declaration statement: it documents every entity the statement names)
            e = {"name": nm, "dim": None, "init": None, "points": False,
                 "doc": self.doc(("variable", nm)) if nm == names[0] else None}
            can_init = where != "arg" and not pure
            alloc = "allocatable" in d["attrs"]
            ptr = "pointer" in d["attrs"]
            if d["parameter"]:
                e["init"] = self.init_for(ts, d["dimattr"]) or "0"
            elif ptr and can_init and ch.bool(1, 2):
                e["init"], e["points"] = "null()", True
            elif can_init and not alloc and not ptr and not derived and where != "blockdata" and ch.bool(1, 3):
                e["init"] = self.init_for(ts, d["dimattr"])
            if not d["dimattr"] and where not in ("arg",) and not d["parameter"] and not alloc and not ptr \
                    and e["init"] is None and ch.bool(1, 8):
                e["dim"] = ch.choice(["(4)", "(2,3)"])
            d["ents"].append(e)
        if derived and where == "component" and not ("pointer" in d["attrs"] or "allocatable" in d["attrs"]):
            pass    # type must already be defined: guaranteed because scope["_types"] only holds earlier types
        return d

    # ---- procedures
    def procedure(self, scope, level, kind=None, name=None, sig=None, force_args=None, module_proc=True,
                  passed=None, in_interface=False):
        """level: 0 = module/external procedure, 1 = internal procedure"""
        ch = self.ch
        k = kind or ch.choice(["subroutine", "function"])
        p = {"k": k, "name": name or self.name("f" if k == "function" else "s"), "args": [], "prefix": [],
             "decls": [], "exec": [], "procs": [], "uses": [], "doc": None, "access": None,
             "_types": list(scope.get("_types", [])), "_kinds": list(scope.get("_kinds", [])),
             "_typeinfo": dict(scope.get("_typeinfo", {}))}
        p["doc"] = self.doc(("procedure", p["name"]))
        pre = ch.weighted([(8, None), (2, "pure"), (2, "elemental"), (2, "recursive"), (1, "impure elemental"),
                           (1, "impure"), (1, "pure recursive")])
        if pre == "non_recursive" and "non_recursive" in self.excl:
            pre = None
        if in_interface and pre == "recursive":
            pre = None
        if pre and sig is None and passed is None:
            p["prefix"] = pre.split()
            p["_pure"] = pre in ("pure", "elemental", "pure recursive")
            p["_elemental"] = "elemental" in pre
        # arguments
        if passed:
            a = self.name("self")
            p["args"].append(a)
            # (gfortran rejects a separate INTENT statement for a CLASS dummy: keep attributes on the declaration)
            p["decls"].append({"d": "var", "ts": {"base": passed[0], "proto": passed[1]}, "attrs": [], "dimattr": None,
                               "intent": "inout", "optional": False, "parameter": False, "access": None, "no_stmt": True,
                               "ents": [{"name": a, "dim": None, "init": None, "points": False, "doc": self.doc(("variable", a))}]})
        if sig is not None:
            for ts in sig:
                a = self.name("a")
                p["args"].append(a)
                p["decls"].append({"d": "var", "ts": dict(ts), "attrs": [], "dimattr": None, "intent": "in", "optional": False,
                                   "parameter": False, "access": None,
                                   "ents": [{"name": a, "dim": None, "init": None, "points": False, "doc": self.doc(("variable", a))}]})
        elif not passed:
            nargs = force_args if force_args is not None else ch.weighted([(2, 0), (3, 1), (3, 2), (1, 3)])
            for _ in range(nargs):
                a = self.name("a")
                p["args"].append(a)
                if not in_interface and not p.get("_pure") and not p.get("_elemental") and self.cfg["interfaces"] and ch.bool(1, 12) \
                        and "dummy_proc_iface" not in self.excl:
                    body = {"k": "subroutine", "name": a, "args": [], "prefix": [], "decls": [], "doc": None}
                    z = self.name("z")
                    body["args"].append(z)
                    body["decls"].append(self._simple_decl({"base": "integer", "kind": None}, z, intent="in"))
                    p["decls"].append({"d": "interface", "form": "explicit", "bodies": [body], "doc": None})
                    if "dummy_proc_optional" not in self.excl and ch.bool(1, 2):
                        # an attribute statement for the dummy procedure
                        p["decls"].append({"d": "stmt", "kw": "optional", "rest": ch.choice([" :: ", " "]) + a})
                elif not in_interface and not p.get("_pure") and not p.get("_elemental") and ch.bool(1, 12) \
                        and "dummy_proc_external" not in self.excl:
                    # a dummy function declared by its type and the EXTERNAL attribute
                    d = self._simple_decl({"base": ch.choice(["integer", "real"]), "kind": None}, a)
                    d["attrs"] = ["external"]
                    d["no_stmt"] = True
                    p["decls"].append(d)
                else:
                    p["decls"].append(self.var_decl(p, "arg", names=[a], arg=True))
        if k == "function":
            rt = self.typespec({"_kinds": p["_kinds"]}, allow_derived=False)
            if rt.get("len") == "*":
                rt["len"] = "12"
            style = ch.weighted([(3, "prefix"), (2, "decl")])
            if ch.bool(1, 3):
                p["result"] = self.name("r")
            if style == "prefix" and not (rt["base"] == "character" and rt.get("len") is None and False):
                p["rettype"] = rt
            else:
                p["rettype"] = rt
                p["ret_in_decls"] = True
                rn = p.get("result") or p["name"]
                d = self._simple_decl(rt, rn)
                d["ents"][0]["doc"] = self.doc(("variable", rn))
                if not p.get("_elemental") and sig is None and not passed and rt["base"] != "character" \
                        and "result_attrs" not in self.excl and ch.bool(1, 3):
                    # an array result; the renderer may give the attribute by a separate statement
                    d["attrs"] = [ch.choice(["allocatable", "pointer"])]
                    d["dimattr"] = "(:)"
                p["decls"].append(d)
        if self.cfg["bind"] and level == 0 and not p["prefix"] and not passed and sig is None and not p["args"] \
                and k == "subroutine" and ch.bool(1, 6):
            # (NAME= is not allowed on BIND(C) in an abstract interface)
            p["bind"] = {"name": ch.choice([None, '"c_name"', "'CName'"]) if not in_interface else None}
        if in_interface:
            return p
        # locals
        for _ in range(ch.weighted([(2, 0), (3, 1), (2, 2), (1, 3)])):
            p["decls"].append(self.var_decl(p, "local"))
        self.local_extras(p, level)
        if self.cfg["exec_decoys"]:
            self.exec_decoys(p)
        if level == 0 and self.cfg["internal_procs"] and not p.get("_pure") and ch.bool(1, 4):
            for _ in range(ch.count(1, 2)):
                p["procs"].append(self.procedure(p, 1))
        return p

    def _simple_decl(self, ts, name, intent=None):
        return {"d": "var", "ts": dict(ts), "attrs": [], "dimattr": None, "intent": intent, "optional": False,
                "parameter": False, "access": None,
                "ents": [{"name": name, "dim": None, "init": None, "points": False, "doc": None}]}

    def local_extras(self, p, level):
        ch = self.ch
        if self.cfg["types"] and ch.bool(1, 8):
            p["decls"].append(self.type_def(p, bindable=False))
        if self.cfg["namelists"] and ch.bool(1, 8) and not p.get("_pure"):
            vs = self._plain_vars(p, 2)
            if vs:
                p["decls"].append({"d": "namelist", "name": self.name("nml"), "vars": vs,
                                   "doc": self.doc(("namelist", None))})
        if self.cfg["commons"] and ch.bool(1, 10) and not p.get("_pure"):
            self.common(p)
        if self.cfg["enums"] and ch.bool(1, 12):
            p["decls"].append(self.enum())

    def _plain_vars(self, scope, n):
        """Fresh plain scalar variables added to scope (usable in namelist/common)."""
        out = []
        for _ in range(self.ch.count(1, n)):
            nm = self.name("c")
            ts = self.ch.choice([{"base": "integer", "kind": None}, {"base": "real", "kind": None},
                                 {"base": "logical", "kind": None}])
            d = self._simple_decl(ts, nm)
            if scope.get("k") == "blockdata" and self.ch.bool(1, 2):
                # an array in a common block: the renderer may give its shape by a DIMENSION statement
                d["dimattr"] = self.ch.choice(["(3)", "(2,2)"])
            scope["decls"].append(d)
            out.append(nm)
        return out

    def common(self, scope):
        ch = self.ch
        blocks = []
        dims = {}
        for _ in range(ch.weighted([(3, 1), (1, 2)])):
            nm = self.name("blk") if ch.bool(3, 4) or any(b[0] is None for b in blocks) else None
            names = self._plain_vars(scope, 2)
            if "common_bounds" not in self.excl and ch.bool(1, 3):
                # FORTRAN 77 style: the type is declared on its own, the COMMON statement gives the array bounds
                for d in scope["decls"]:
                    if d["d"] == "var" and d["ents"][0]["name"] == names[0] and not d.get("dimattr"):
                        d["dimattr"] = "(5)"
                        d["dim_elsewhere"] = True
                        dims[names[0]] = "(5)"
            blocks.append([nm, names])
        scope["decls"].append({"d": "common", "blocks": blocks, "dims": dims, "doc": self.doc(("common", None))})

    def enum(self):
        ch = self.ch
        items = []
        rich = "enum_values" not in self.excl
        for i in range(ch.count(1, 3)):
            v = ch.choice([None, None, str(i * 3 + 1)] + ([f"{i * 3 + 2}_4", f"{i * 3 + 2}_8"] if rich else []))
            if rich and i and items[-1][1] is not None and ch.bool(1, 4):
                v = f"{items[-1][0]} + 4"        # a constant expression naming the enumerator before
            if v is None and i and items[-1][1] is not None and "+" in items[-1][1]:
                v = str(i * 3 + 1)               # (what follows an expression is given explicitly)
            items.append([self.name("e"), v])
        return {"d": "enum", "items": items, "docs": {}}

    def exec_decoys(self, p):
        """Executable statements that resemble declarations; none of them declares anything."""
        ch = self.ch
        iv = self.name("integer_n")
        rv = self.name("real_x")
        p["decls"].append(self._simple_decl({"base": "integer", "kind": None}, iv))
        p["decls"].append(self._simple_decl({"base": "real", "kind": None}, rv))
        pool = [
            f"{iv} = 1", f"{rv} = 2.0", f"{iv} = {iv} + 1", f"if ({iv} > 0) {iv} = 2",
            "print *, 'integer :: fake'", 'print *, "call nothing(1)"', "print *, 'type :: t'",
            f"{rv} = real({iv})", f"{iv} = int({rv})", "continue",
            ["do {iv} = 1, 3".format(iv=iv), "end do"],
            [f"select case ({iv})", "case (1)", f"{iv} = 2", "case default", f"{iv} = 3", "end select"],
            [f"if ({iv} == 1) then", f"{rv} = 1.0", f"else if ({iv} == 2) then", f"{rv} = 2.0", "else", f"{rv} = 3.0", "end if"],
            ["block", f"{iv} = 4", "end block"],
            [f"do while ({iv} < 3)", f"{iv} = {iv} + 1", "enddo"],
        ]
        if p.get("_pure"):
            pool = [x for x in pool if not (isinstance(x, str) and x.startswith("print"))]
        for _ in range(ch.count(0, 4)):
            x = ch.choice(pool)
            if isinstance(x, list):
                p["exec"].extend(x)
            else:
                p["exec"].append(x)
        if p["k"] == "function":
            rn = p.get("result") or p["name"]
            rt = p.get("rettype") or {"base": "real"}
            val = {"integer": "1", "real": "1.0", "double precision": "1.0d0", "complex": "(1.0, 0.0)",
                   "logical": ".true.", "character": "'r'", "double complex": "(1.0d0, 0.0d0)"}[rt["base"]]
            p["exec"].append(f"{rn} = {val}")

    # ---- derived types
    def type_def(self, scope, bindable=True, module=None):
        ch = self.ch
        t = {"d": "type", "name": self.name("t"), "abstract": False, "extends": None, "bind_c": False,
             "access": None, "access_how": "attr", "sequence": False, "private_comps": False, "comps": [],
             "private_binds": False, "binds": [], "finals": [], "doc": None}
        t["doc"] = self.doc(("type", t["name"]))
        info = scope.setdefault("_typeinfo", {})
        extendable = [n for n in scope.get("_types", []) if info.get(n, {}).get("extendable")]
        if extendable and not self.cfg.get("no_extends") and ch.bool(1, 3):
            t["extends"] = ch.choice(extendable)
        elif ch.bool(1, 8):
            t["sequence"] = True
        if bindable and not t["sequence"] and ch.bool(1, 6):
            t["abstract"] = True
        if t["extends"] and info.get(t["extends"], {}).get("has_deferred"):
            t["abstract"] = True
        if not t["sequence"] and module is not None and ch.bool(1, 5):
            t["private_comps"] = True
        ncomp = ch.count(0 if t["extends"] else 1, 3)
        sub = {"_types": [n for n in scope.get("_types", []) if not info.get(n, {}).get("abstract")],
               "_kinds": scope.get("_kinds", [])}
        if t["sequence"]:
            sub["_types"] = [n for n in sub["_types"] if info.get(n, {}).get("sequence")]
        for _ in range(ncomp):
            d = self.var_decl(sub, "component")
            if t["sequence"] or module is None:
                d["access"] = None
            t["comps"].append(d)
        if module is not None and self.cfg["access"]:
            t["access"] = ch.weighted([(5, None), (2, "public"), (2, "private")])
            t["access_how"] = ch.weighted([(3, "attr"), (1, "stmt_after"), (1, "stmt_before")])
        has_deferred = info.get(t["extends"], {}).get("has_deferred", False) if t["extends"] else False
        if bindable and module is not None and not t["sequence"]:
            nb = ch.weighted([(3, 0), (2, 1), (2, 2), (1, 3)])
            specifics = []
            for i in range(nb):
                b = {"name": self.name("b"), "target": None, "generic": False, "deferred": False, "iface": None,
                     "attrs": [], "access": None, "doc": None}
                b["doc"] = self.doc(("binding", b["name"]))
                if t["abstract"] and ch.bool(1, 3) and module.get("_absifaces"):
                    b["deferred"] = True
                    b["iface"] = ch.choice(module["_absifaces"])
                    b["attrs"].append("nopass")
                    has_deferred = True
                elif self.cfg.get("outside") and ch.bool(1, 3):
                    # bound to a procedure of a module that is not part of the project (a third-party library)
                    ext = self.name("xt")
                    module.setdefault("_outside", []).append(ext)
                    b["attrs"].append("nopass")
                    b["target"] = ext
                    specifics.append(b["name"])          # (may also be named by a generic binding)
                else:
                    use_pass = ch.bool(1, 3)
                    sig = [ARG_SIG_TYPES[i % len(ARG_SIG_TYPES)]]
                    impl_name = self.name("impl")
                    if use_pass:
                        impl = self.procedure(module, 0, kind="subroutine", name=impl_name,
                                              passed=("class", t["name"]))
                        if ch.bool(1, 3):
                            b["attrs"].append(f"pass({impl['args'][0]})" if ch.bool() else "pass")
                    else:
                        impl = self.procedure(module, 0, kind="subroutine", name=impl_name, sig=sig)
                        b["attrs"].append("nopass")
                        specifics.append(b["name"])
                    if ch.bool(1, 5):
                        b["attrs"].append("non_overridable")
                    module["_pending_procs"].append(impl)
                    if ch.bool(2, 3):
                        b["target"] = impl_name
                    else:
                        b["name"] = impl_name
                        if not use_pass:
                            specifics[-1] = impl_name
                if self.cfg["access"] and ch.bool(1, 4):
                    b["access"] = ch.choice(["public", "private"])
                t["binds"].append(b)
            if len(specifics) >= 1 and ch.bool(1, 3):
                gname = ch.weighted([(3, self.name("gen")), (0, "operator(+)")])
                g = {"generic": True, "name": gname, "targets": specifics[: ch.count(1, len(specifics))],
                     "access": ch.choice([None, "public", "private"]) if self.cfg["access"] else None, "doc": None}
                g["doc"] = self.doc(("binding", gname))
                t["binds"].append(g)
            if ch.bool(1, 6) and self.cfg["access"]:
                t["private_binds"] = True
            if not t["abstract"] and self.cfg.get("outside") and ch.bool(1, 6):
                # finalised by a module procedure of a module that is not part of the project
                ext = self.name("xtfin")
                module.setdefault("_outside", []).append(ext)
                t["finals"].append(ext)
            elif not t["abstract"] and ch.bool(1, 5):
                for _ in range(ch.count(1, 2)):
                    fn = self.name("fin")
                    rank = len(t["finals"])
                    impl = self.procedure(module, 0, kind="subroutine", name=fn, passed=("type", t["name"]))
                    if rank == 1:
                        impl["decls"][0]["dimattr"] = "(:)"
                    module["_pending_procs"].append(impl)
                    t["finals"].append(fn)
        scope.setdefault("_types", []).append(t["name"])
        info[t["name"]] = {"extendable": not t["sequence"], "abstract": t["abstract"], "sequence": t["sequence"],
                           "has_deferred": has_deferred}
        return t

    # ---- interfaces
    def _derived_result(self, module, b):
        """Sometimes an interface function returns a derived type of the host module (IMPORTed into the body)."""
        tinfo = module.get("_typeinfo", {})
        types = [t for t in module.get("_types", []) if not tinfo.get(t, {}).get("abstract")]
        if b["k"] != "function" or not types or "iface_derived_result" in self.excl or not self.ch.bool(1, 3):
            return
        t = self.ch.choice(types)
        b["rettype"] = {"base": "type", "proto": t, "kind": None}
        b["import"] = [t]
        rn = b.get("result") or b["name"]
        for d in b["decls"]:
            if d["d"] == "var" and any(e["name"] == rn for e in d["ents"]):
                d["ts"] = dict(b["rettype"])

    def interface(self, module):
        ch = self.ch
        form = ch.weighted([(3, "generic"), (2, "abstract"), (2, "explicit"), (1, "operator")])
        if form == "abstract":
            i = {"d": "interface", "form": "abstract", "bodies": [], "doc": None}
            for _ in range(ch.count(1, 2)):
                b = self.procedure({"_kinds": []}, 0, in_interface=True, name=self.name("absi"))
                self._derived_result(module, b)
                if self.cfg["access"] and ch.bool(1, 4):
                    b["access"] = ch.choice(["public", "private"])
                    b["access_how"] = ch.choice(["stmt_after", "stmt_before"])
                i["bodies"].append(b)
                if b["k"] == "subroutine" and not b["args"]:
                    module.setdefault("_absifaces", []).append(b["name"])
            return i
        if form == "explicit":
            i = {"d": "interface", "form": "explicit", "bodies": [], "doc": None}
            for _ in range(ch.count(1, 2)):
                b = self.procedure({"_kinds": []}, 0, in_interface=True, name=self.name("ext"))
                self._derived_result(module, b)
                if self.cfg["access"] and ch.bool(1, 4):
                    b["access"] = ch.choice(["public", "private"])
                    b["access_how"] = ch.choice(["stmt_after", "stmt_before"])
                i["bodies"].append(b)
            return i
        if form == "operator":
            f = self.procedure(module, 0, kind="function", name=self.name("opf"),
                               sig=[{"base": "integer", "kind": None}, {"base": "integer", "kind": None}])
            f["rettype"] = {"base": "integer", "kind": None}
            f.pop("ret_in_decls", None)
            f["decls"] = [d for d in f["decls"] if d["d"] == "var" and d["ents"][0]["name"] in f["args"]]
            f["result"] = None
            f["exec"] = [f"{f['name']} = 1"]
            f["procs"] = []
            module["_pending_procs"].append(f)
            i = {"d": "interface", "form": "generic", "name": f"operator(.{self.opname()}.)", "modprocs": [f["name"]],
                 "bodies": [], "doc": None, "access": None}
        else:
            i = {"d": "interface", "form": "generic", "name": self.name("g"), "modprocs": [], "bodies": [],
                 "doc": None, "access": None}
            n = ch.count(1, 3)
            for j in range(n):
                sig = [ARG_SIG_TYPES[j]]
                if ch.bool(2, 3):
                    s = self.procedure(module, 0, kind="subroutine", name=self.name("spec"), sig=sig)
                    module["_pending_procs"].append(s)
                    i["modprocs"].append(s["name"])
                else:
                    b = self.procedure({"_kinds": []}, 0, kind="subroutine", in_interface=True, name=self.name("xspec"), sig=sig)
                    i["bodies"].append(b)
        i["doc"] = self.doc(("interface", i["name"]))
        if self.cfg["access"]:
            i["access"] = ch.weighted([(4, None), (1, "public"), (1, "private")])
            i["access_how"] = ch.choice(["stmt_after", "stmt_before"])
        return i

    # ---- program units
    def module(self, project):
        ch = self.ch
        m = {"k": "module", "name": self.name("m"), "uses": [], "default_access": None, "access_pos": "early",
             "decls": [], "procs": [], "doc": None, "_types": [], "_kinds": [], "_pending_procs": [], "_absifaces": []}
        m["doc"] = self.doc(("module", m["name"]))
        if self.cfg["access"]:
            m["default_access"] = ch.weighted([(4, None), (2, "private"), (1, "public")])
            if self.cfg["late_access"] and m["default_access"] and ch.bool(1, 3):
                m["access_pos"] = "late"
        if ch.bool(1, 3):
            k = self.name("wp")
            d = self._simple_decl({"base": "integer", "kind": None}, k)
            d["parameter"] = True
            d["no_stmt"] = True      # used as a kind value below: must be a constant from here on
            d["ents"][0]["init"] = ch.choice(["8", "kind(1.0d0)", "selected_real_kind(12)", "4"])
            d["ents"][0]["doc"] = self.doc(("variable", k))
            m["decls"].append(d)
            m["_kinds"].append(k)
        if ch.bool(1, 5):
            m["uses"].append({"module": "iso_fortran_env", "nature": ch.choice([None, "intrinsic"]), "only": None, "renames": []})
        n = ch.count(1, 6)
        for _ in range(n):
            kind = ch.weighted([(5, "var"), (2 if self.cfg["types"] else 0, "type"),
                                (2 if self.cfg["interfaces"] else 0, "interface"), (1 if self.cfg["enums"] else 0, "enum"),
                                (1 if self.cfg["namelists"] else 0, "namelist")])
            if kind == "var":
                m["decls"].append(self.var_decl(m, "module"))
            elif kind == "type":
                m["decls"].append(self.type_def(m, bindable=True, module=m))
            elif kind == "interface":
                m["decls"].append(self.interface(m))
            elif kind == "enum":
                m["decls"].append(self.enum())
            elif kind == "namelist":
                vs = self._plain_vars(m, 2)
                m["decls"].append({"d": "namelist", "name": self.name("nml"), "vars": vs, "doc": self.doc(("namelist", None))})
        for _ in range(ch.weighted([(2, 0), (3, 1), (2, 2)])):
            m["procs"].append(self.procedure(m, 0))
        m["procs"].extend(m.pop("_pending_procs"))
        if self.cfg.get("constructors"):
            # an overridden structure constructor: a generic interface named like a type of this module
            for d in [d for d in m["decls"] if d["d"] == "type" and not d.get("abstract")][:1]:
                if ch.bool(1, 2):
                    fn = self.name("mk")
                    arg = self.name("a")
                    m["procs"].append({"k": "function", "name": fn, "args": [arg], "prefix": [], "result": None,
                                       "rettype": {"base": "type", "proto": d["name"]},
                                       "decls": [self._simple_decl({"base": "integer", "kind": None}, arg, intent="in")],
                                       "exec": [], "procs": [], "uses": [], "doc": self.doc(("procedure", fn))})
                    m["decls"].append({"d": "interface", "form": "generic", "name": d["name"], "modprocs": [fn], "bodies": [],
                                       "doc": self.doc(("interface", d["name"])), "access": d.get("access"),
                                       "access_how": "attr"})
        if m.get("_outside"):
            m["uses"].append({"module": "xt_lib", "nature": None, "only": [[n, None] for n in m.pop("_outside")], "renames": []})
        if self.cfg["access"]:
            for p in m["procs"]:
                if ch.bool(1, 5):
                    p["access"] = ch.choice(["public", "private"])
                    p["access_how"] = ch.choice(["stmt_after", "stmt_before"])
        # separate module procedures implemented in a submodule
        if self.cfg["submodules"] and (ch.bool(1, 4) or self.cfg.get("force_submodules")):
            i = {"d": "interface", "form": "explicit", "bodies": [], "doc": None}
            impls = []
            for _ in range(ch.count(1, 2)):
                b = self.procedure({"_kinds": []}, 0, in_interface=True, name=self.name("mp"))
                b["prefix"] = ["module"] + [x for x in b["prefix"]]
                i["bodies"].append(b)
                impls.append(b)
            m["decls"].append(i)
            project["_submodule_jobs"].append((m["name"], impls))
        return m

    def submodule(self, ancestor, impls, parent=None):
        ch = self.ch
        import copy
        s = {"k": "submodule", "name": self.name("sm"), "ancestor": ancestor, "parent": parent, "uses": [],
             "decls": [], "procs": [], "doc": None}
        s["doc"] = self.doc(("submodule", s["name"]))
        if ch.bool(1, 3):
            s["decls"].append(self.var_decl({"_kinds": []}, "local"))
        for b in impls:
            if ch.bool(1, 3) and "modproc_form" not in self.excl:
                p = {"k": "modproc", "name": b["name"], "decls": [], "exec": [], "procs": [], "uses": [],
                     "doc": self.doc(("procedure", b["name"])), "implicit_none": False}
                if b["k"] == "function":
                    rn = b.get("result") or b["name"]
                    rt = b.get("rettype") or {"base": "real"}
                    val = {"integer": "1", "real": "1.0", "double precision": "1.0d0", "complex": "(1.0, 0.0)",
                           "logical": ".true.", "character": "'r'"}[rt["base"]]
                    p["exec"].append(f"{rn} = {val}")
            else:
                p = copy.deepcopy(b)
                p["doc"] = self.doc(("procedure", b["name"]))
                for d in p["decls"]:
                    if d["d"] == "var":
                        for e in d["ents"]:
                            e["doc"] = None
                p["exec"] = []
                p["procs"] = []
                if p["k"] == "function":
                    rn = p.get("result") or p["name"]
                    rt = p.get("rettype") or {"base": "real"}
                    val = {"integer": "1", "real": "1.0", "double precision": "1.0d0", "complex": "(1.0, 0.0)",
                           "logical": ".true.", "character": "'r'"}[rt["base"]]
                    p["exec"].append(f"{rn} = {val}")
            # local data of the implementation (its documentation is an "internal" of the procedure)
            for _ in range(ch.count(0, 2)):
                # (the implementation of a PURE / ELEMENTAL interface is pure itself: no SAVE, no initialisation)
                p["decls"].append(self.var_decl({"_kinds": [], "_pure": bool(b.get("_pure")), "k": b["k"]}, "local"))
            s["procs"].append(p)
        return s

    def program(self):
        ch = self.ch
        p = {"k": "program", "name": self.name("prog"), "uses": [], "decls": [], "exec": [], "procs": [], "doc": None,
             "_types": [], "_kinds": []}
        p["doc"] = self.doc(("program", p["name"]))
        for _ in range(ch.count(0, 3)):
            p["decls"].append(self.var_decl(p, "program"))
        self.local_extras(p, 0)
        if self.cfg["exec_decoys"]:
            self.exec_decoys(p)
        if self.cfg["internal_procs"] and ch.bool(1, 3):
            for _ in range(ch.count(1, 2)):
                p["procs"].append(self.procedure(p, 1))
        return p

    def blockdata(self):
        ch = self.ch
        # (a program has at most one unnamed block data unit)
        named = ch.bool(2, 3) or getattr(self, "_blank_blockdata", False)
        b = {"k": "blockdata", "name": self.name("bd") if named else None, "uses": [], "decls": [], "doc": None}
        if not named:
            self._blank_blockdata = True
        b["doc"] = self.doc(("blockdata", b["name"]))
        self.common(b)
        if ch.bool(1, 2):
            # a named constant given by a PARAMETER statement, and a SAVE statement for a block
            k = self.name("bdk")
            d = self._simple_decl({"base": "integer", "kind": None}, k)
            d["parameter"] = True
            d["ents"][0]["init"] = "7"
            b["decls"].insert(0, d)
        return b

    def project(self):
        ch = self.ch
        cfg = self.cfg
        proj = {"files": [], "_submodule_jobs": []}
        nfiles = ch.count(1, cfg["max_files"])
        have_program = False
        for fi in range(nfiles):
            f = {"path": f"src/{self.name('file')}.f90", "form": "free", "units": [], "doc": None}
            for _ in range(ch.count(1, cfg["max_units"])):
                kind = ch.weighted([(6, "module"), (2 if cfg["programs"] and not have_program else 0, "program"),
                                    (2 if cfg["extprocs"] else 0, "proc"), (1 if cfg["blockdata"] else 0, "blockdata")])
                only = cfg.get("only_unit")
                if only == "program":
                    kind = "program" if not have_program else "proc"
                elif only == "proc":
                    kind = "proc"
                elif only == "blockdata+module" and ch.bool():
                    kind = "blockdata"
                if kind == "module":
                    f["units"].append(self.module(proj))
                elif kind == "program":
                    have_program = True
                    f["units"].append(self.program())
                elif kind == "proc":
                    f["units"].append(self.procedure({}, 0))
                else:
                    f["units"].append(self.blockdata())
            proj["files"].append(f)
        for anc, impls in proj.pop("_submodule_jobs"):
            f = ch.choice(proj["files"]) if ch.bool(1, 2) else None
            sm = self.submodule(anc, impls)
            if f is None or any(u["k"] == "program" for u in f["units"]) and False:
                f = {"path": f"src/{self.name('file')}.f90", "form": "free", "units": [], "doc": None}
                proj["files"].append(f)
            f["units"].append(sm)
        strip_private(proj)
        return proj


def strip_private(node):
    """Remove generator-internal keys (leading underscore) so that the model is plain JSON."""
    if isinstance(node, dict):
        for k in [k for k in node if isinstance(k, str) and k.startswith("_")]:
            del node[k]
        for v in node.values():
            strip_private(v)
    elif isinstance(node, list):
        for v in node:
            strip_private(v)


def gen_project(ch, cfg=None):
    g = Gen(ch, cfg)
    p = g.project()
    return p, g
