"""C02 - statement and doc extraction depends only on Fortran lexical rules.

Generated: abstract logical lines (token lists with character literals of both kinds) and
a physical *layout* for them (continuations in all forms, `;`, comments, blank lines,
indentation).  The expected statement tokens and doc lines are known by construction.
Oracle: iterate ford.reader.FortranReader over the rendered file, tokenise each returned
statement with the small reference lexer below and compare token lists (literal text byte
for byte) and doc lines in order.
"""
from __future__ import annotations

import itertools
import os
import re
import tempfile

from vfw.runner import Result

ID = "C02"
LEVEL = "exploration"
TECHNIQUE = ("bounded-exhaustive enumeration + Hypothesis random layouts of abstract logical lines; "
             "oracle = token lists/doc lines known by construction, compared through a reference lexer")
RULE = ("case = one rendered free-form file (1..6 logical lines); non-trivial iff some logical line "
        "contains a character literal with a syntax character (! ; & quote) AND a continuation or ';' "
        "on the same logical line; distinct by SHA-1 of the rendered text (enumerated cases are distinct "
        "by construction)")
ASSUMPTIONS = [
    "reference lexer in vfw/props/c02.py (identifiers, digits, punctuation, quoted literals with doubled quotes)",
    "generated layouts follow F2008 3.3.2 (free form): tokens and character contexts are split only with a leading '&'",
    "doc markers at their defaults-in-tests: docmark '!', predocmark '>', alternates '*' and '|'",
]
EXHAUSTIVE = False   # the enumerated part is complete for its bound; the random part is not


def budget(tier):
    if tier == "quick":
        return {"examples": 64000, "enum_len": 3, "shrink_cap_s": 60}
    return {"examples": 1600000, "enum_len": 4, "shrink_cap_s": 240, "wall_cap_s": 3000}


# ----------------------------------------------------------------------------- reference lexer
_TOK = re.compile(r"\s*(?:([A-Za-z_][A-Za-z0-9_]*)|([0-9]+)|(//|=>|==|/=|[=(),+%*:/<>.\-\[\]]))")


def lex(stmt: str):
    """-> list of (kind, text) or raises ValueError"""
    out = []
    i, n = 0, len(stmt)
    while i < n:
        c = stmt[i]
        if c in " \t":
            i += 1
            continue
        if c in "'\"":
            j = i + 1
            while True:
                if j >= n:
                    raise ValueError(f"unterminated literal at {i}")
                if stmt[j] == c:
                    if j + 1 < n and stmt[j + 1] == c:
                        j += 2
                        continue
                    break
                j += 1
            out.append(("lit", stmt[i:j + 1]))
            i = j + 1
            continue
        m = _TOK.match(stmt, i)
        if not m or m.end() == i:
            raise ValueError(f"unexpected character {c!r} at {i}")
        if m.group(1):
            out.append(("id", m.group(1)))
        elif m.group(2):
            out.append(("num", m.group(2)))
        else:
            out.append(("p", m.group(3)))
        i = m.end()
    return out


# ----------------------------------------------------------------------------- rendering
def lit_text(q, pieces):
    """pieces: list of content pieces; the piece 'Q' stands for the own quote (doubled),
    'O' for the other quote character."""
    other = '"' if q == "'" else "'"
    units = []          # indivisible units of the content
    for p in pieces:
        if p == "Q":
            units.append(q + q)
        elif p == "O":
            units.append(other)
        else:
            units.extend(p)
    return units


SYNTAX_PIECES = {"!", ";", "&", "Q", "O", "!!", "!>", "! c"}


def render_case(lines, excl=()):
    """lines: list of logical *physical groups*; each group is a dict
         {"pre": [predoc texts], "stmts": [stmt...], "docs": [doc texts], "inline_doc": bool,
          "tail_comment": str|None, "indent": int, "blank_before": int, "comment_before": str|None}
       stmt = {"toks": [tok...], "gaps": [gap...]} with len(gaps) == len(toks)-1
       tok  = ["id", text, split|None] | ["num", text] | ["p", text] | ["lit", q, pieces, breaks]
       gap  = ["sp", n] | ["cont", trailing_comment|None, between, indent, lead_amp]
       between = list of "" (blank line) or comment text lines
    Returns (text, expected_items, features, nontrivial)
    """
    out = []
    expect = []
    feats = set()
    nontrivial = False
    for g in lines:
        for _ in range(g.get("blank_before", 0)):
            out.append("")
        if g.get("comment_before") is not None:
            out.append("   ! " + g["comment_before"])
            feats.add("comment-line")
        for p in g.get("pre", []):
            out.append(" " * g.get("indent", 0) + "!>" + p)
            feats.add("predoc")
        cur = " " * g.get("indent", 0)
        for si, s in enumerate(g["stmts"]):
            if si:
                cur += s.get("semi", "; ")
                feats.add("semicolon")
            toks_expected = []
            has_syntax_lit = False
            has_cont = len(g["stmts"]) > 1
            prev_alnum = False
            prev_kind = None
            for ti, t in enumerate(s["toks"]):
                this_kind = "a" if t[0] in ("id", "num") else t[0]
                if ti:
                    gap = s["gaps"][ti - 1]
                    # adjacent tokens of the same class would lex as one token
                    # ('a''b', ==, abc1) - keep them apart with a blank
                    need_blank = prev_kind == this_kind
                    if gap[0] == "sp":
                        cur += " " * max(gap[1], 1 if need_blank else 0)
                    else:
                        _, tc, between, ind, lead = gap
                        has_cont = True
                        feats.add("cont-lead&" if lead else "cont-plain")
                        # with a leading '&' the two lines are concatenated verbatim, so a
                        # blank is needed to keep the neighbouring tokens apart
                        if need_blank or tc is not None or lead:
                            cur += " "
                        cur += "&"
                        if tc is not None:
                            cur += " ! " + tc
                            feats.add("cont-trailing-comment")
                        out.append(cur)
                        for b in between:
                            if b == "":
                                out.append("")
                                feats.add("cont-blank-between")
                            else:
                                out.append("  ! " + b)
                                feats.add("cont-comment-between")
                        cur = " " * ind + ("&" if lead else "")
                if t[0] == "id":
                    text, split = t[1], (t[2] if len(t) > 2 else None)
                    if split and 0 < split[0] < len(text):
                        k = split[0]
                        cur += text[:k] + "&"
                        out.append(cur)
                        for b in split[1]:
                            out.append("" if b == "" else "  ! " + b)
                        cur = " " * split[2] + "&" + text[k:]
                        feats.add("ident-split")
                        has_cont = True
                    else:
                        cur += text
                    toks_expected.append(["id", text])
                    prev_alnum = True
                elif t[0] == "num":
                    cur += t[1]
                    toks_expected.append(["num", t[1]])
                    prev_alnum = True
                elif t[0] == "p":
                    cur += t[1]
                    toks_expected.append(["p", t[1]])
                    prev_alnum = False
                else:
                    _, q, pieces, breaks = t
                    units = lit_text(q, pieces)
                    if any(p in SYNTAX_PIECES for p in pieces):
                        has_syntax_lit = True
                    full = q + "".join(units) + q
                    toks_expected.append(["lit", full])
                    cur += q
                    bmap = {b[0]: b for b in breaks if 0 <= b[0] <= len(units)}
                    for ui in range(len(units) + 1):
                        if ui in bmap:
                            _, between, ind = bmap[ui]
                            cur += "&"
                            out.append(cur)
                            for b in between:
                                if b == "":
                                    out.append("")
                                    feats.add("lit-blank-between")
                                else:
                                    out.append("  ! " + b)
                                    feats.add("lit-comment-between")
                            cur = " " * ind + "&"
                            feats.add("lit-split")
                            has_cont = True
                        if ui < len(units):
                            cur += units[ui]
                    cur += q
                    feats.add("lit-dq" if "Q" in pieces else "lit")
                    prev_alnum = False
                prev_kind = this_kind
            expect.append(["s", toks_expected])
            if has_syntax_lit and has_cont:
                nontrivial = True
        for p in g.get("pre", []):
            expect.append(["d", p])
        docs = list(g.get("docs", []))
        if docs and g.get("inline_doc"):
            cur += " !!" + docs[0]
            feats.add("doc-inline")
            out.append(cur)
            for d in docs[1:]:
                out.append("    !!" + d)
        else:
            if g.get("tail_comment") is not None:
                cur += " ! " + g["tail_comment"]
                feats.add("tail-comment")
            out.append(cur)
            for d in docs:
                out.append("    !!" + d)
            if docs:
                feats.add("doc-ownline")
        for d in docs:
            expect.append(["d", d])
    return "\n".join(out) + "\n", expect, sorted(feats), nontrivial


# ----------------------------------------------------------------------------- strategy
IDENTS = ["x", "y", "abc", "end", "call", "foo_1", "subroutine", "if", "print", "include_x", "a1"]
PUNCT = ["=", "(", ")", ",", "+", "//", "%", "*", ":"]
PIECES = ["a", "b", " ", "  ", "!", ";", "&", "Q", "O", "!!", "!>", "end subroutine", "call f(x)", "! c", "x&"]
COMMENT_TEXT = ["c", "note", "it's", 'say "hi"', "a; b", "more &", "x = 'y", "wow! really", "", "tab\there"]
DOC_TEXT = [" doc", " it's a doc", ' "quoted"', " a; b", " trailing &", " x = 'y'", " ! bang", " 1 < 2"]


BETWEEN = ["", "c", "it's", 'q"', "&", "!x"]


def _between(ch, excl_key, excl):
    if excl_key in excl or not ch.bool(1, 4):
        return []
    return [ch.choice(BETWEEN) for _ in range(ch.count(1, 2))]


def _gen_token(ch, excl):
    k = ch.weighted([(3, "id"), (1, "num"), (3, "p"), (4, "lit")])
    if k == "id":
        text = ch.choice(IDENTS)
        split = None
        if len(text) > 1 and ch.bool(1, 6):
            split = [ch.count(1, len(text) - 1), _between(ch, "ident.between", excl), ch.int(6)]
        return ["id", text, split]
    if k == "num":
        return ["num", ch.choice(["1", "42", "007"])]
    if k == "p":
        return ["p", ch.choice(PUNCT)]
    q = ch.choice(["'", '"'])
    pieces = [ch.choice(PIECES) for _ in range(ch.int(5))]
    units = lit_text(q, pieces)
    breaks = []
    if ch.bool(1, 3):
        used = set()
        for _ in range(ch.count(1, 2)):
            p = ch.int(len(units) + 1)
            if p in used:
                continue
            used.add(p)
            breaks.append([p, _between(ch, "lit.between", excl), ch.int(6)])
    return ["lit", q, pieces, breaks]


def _gen_gap(ch, excl):
    if not ch.bool(1, 4):
        return ["sp", ch.int(3)]
    tc = ch.choice(COMMENT_TEXT) if ch.bool(1, 3) else None
    return ["cont", tc, _between(ch, "cont.between", excl), ch.int(8), ch.bool()]


def _gen_stmt(ch, excl):
    toks = [_gen_token(ch, excl) for _ in range(ch.count(1, 6))]
    if "include_variable" not in excl and ch.bool(1, 12):
        # a variable called `include` (Fortran has no reserved words): an assignment, not an INCLUDE line
        toks = [["id", "include", None], ["p", "="]] + toks
    gaps = [_gen_gap(ch, excl) for _ in range(len(toks) - 1)]
    return {"toks": toks, "gaps": gaps, "semi": ch.choice(["; ", ";", " ; ", "; ; "])}


def _gen_group(ch, excl):
    stmts = [_gen_stmt(ch, excl) for _ in range(ch.weighted([(4, 1), (2, 2), (1, 3)]))]
    g = {
        "stmts": stmts,
        "indent": ch.int(6),
        "blank_before": ch.weighted([(3, 0), (1, 1), (1, 2)]),
        "comment_before": ch.choice(COMMENT_TEXT) if ch.bool(1, 4) else None,
        "docs": [ch.choice(DOC_TEXT) for _ in range(ch.weighted([(3, 0), (2, 1), (1, 2)]))],
        "inline_doc": ch.bool(),
        "tail_comment": ch.choice(COMMENT_TEXT) if ch.bool(1, 3) else None,
        "pre": [],
    }
    if len(stmts) == 1 and ch.bool(1, 5):
        g["pre"] = [ch.choice(DOC_TEXT) for _ in range(ch.count(1, 2))]
    return g


def _mk_case(groups, excl):
    text, expect, feats, nontrivial = render_case(groups, excl)
    return {"text": text, "expect": expect, "features": feats, "nontrivial": nontrivial}


def gen_case(ch, excl=()):
    groups = [_gen_group(ch, excl) for _ in range(ch.count(1, 4))]
    return _mk_case(groups, excl)


def strategy(tier, excl):
    from vfw.choose import from_bytes
    excl = tuple(excl)
    return from_bytes(lambda ch: gen_case(ch, excl), min_size=64, max_size=512)


# ----------------------------------------------------------------------------- bounded-exhaustive part
ENUM_ATOMS = [
    ["id", "x", None], ["p", "="],
    ["lit", "'", ["a"], []], ["lit", "'", ["!"], []], ["lit", "'", [";"], []], ["lit", "'", ["&"], []],
    ["lit", "'", ["a", "Q", "b"], []], ["lit", "'", [], []], ["lit", '"', ["O"], []], ["lit", "'", ["O"], []],
    ["lit", "'", ["a", "b"], [[1, [], 2]]], ["lit", "'", ["!", "Q"], [[1, [], 0]]],
]
ENUM_GAPS = [
    ["sp", 1], ["cont", None, [], 2, False], ["cont", None, [], 2, True], ["cont", "c", [], 2, False],
    ["cont", None, ["it's"], 0, False], ["cont", None, [""], 1, True], "SEMI",
]
ENUM_TAILS = [("none",), ("comment", "c"), ("comment", "it's"), ("doc", " d"), ("docline", " d")]


def enumerated(tier, excl):
    L = budget(tier)["enum_len"]
    for k in range(1, L + 1):
        for atoms in itertools.product(ENUM_ATOMS, repeat=k):
            for gaps in itertools.product(ENUM_GAPS, repeat=k - 1):
                for tail in ENUM_TAILS:
                    stmts = [{"toks": [atoms[0]], "gaps": []}]
                    for a, g in zip(atoms[1:], gaps):
                        if g == "SEMI":
                            stmts.append({"toks": [a], "gaps": [], "semi": "; "})
                        else:
                            stmts[-1]["toks"].append(a)
                            stmts[-1]["gaps"].append(g)
                    grp = {"stmts": stmts, "indent": 1, "docs": [], "inline_doc": False,
                           "tail_comment": None, "pre": []}
                    if tail[0] == "comment":
                        grp["tail_comment"] = tail[1]
                    elif tail[0] == "doc":
                        grp["docs"], grp["inline_doc"] = [tail[1]], True
                    elif tail[0] == "docline":
                        grp["docs"] = [tail[1]]
                    c = _mk_case([grp], excl)
                    c["enum"] = True
                    yield c


# ----------------------------------------------------------------------------- oracle
_TMP = None


def _tmpfile():
    global _TMP
    if _TMP is None:
        d = tempfile.mkdtemp(prefix="vfw-c02-")
        _TMP = os.path.join(d, "case.f90")
        import atexit, shutil
        atexit.register(shutil.rmtree, d, True)
    return _TMP


def read_items(text):
    """Run the real reader. -> list of ["s", tokens] / ["d", text] / raises"""
    from ford.reader import FortranReader
    path = _tmpfile()
    with open(path, "w", encoding="utf-8", newline="") as f:
        f.write(text)
    items = []
    raw = []
    for line in FortranReader(path, "!", ">", "*", "|"):
        raw.append(line)
        if line.startswith("!"):
            if line.startswith("!!"):
                d = line[2:].rstrip()
                if d.strip() == "":
                    continue        # paragraph separators inserted for blank lines
                items.append(["d", d])
            else:
                items.append(["?", line])
        else:
            if line.strip() == "":
                continue            # `; ;` - consecutive semicolons are one separator (F2008 3.3.2.5)
            try:
                items.append(["s", [list(t) for t in lex(line)]])
            except ValueError as e:
                items.append(["unlexable", line, str(e)])
    return items, raw


def read_raw_like_parser(text):
    """Read the way the parser does (ford.sourceform.read_docstring): after every statement the following doc lines
    are read, and the first line that is no doc line is handed back with pass_back().  -> every line, in order."""
    from ford.reader import FortranReader
    path = _tmpfile()
    with open(path, "w", encoding="utf-8", newline="") as f:
        f.write(text)
    src = FortranReader(path, "!", ">", "*", "|")
    raw = []
    while True:
        try:
            line = next(src)
        except StopIteration:
            break
        raw.append(line)
        if line.startswith("!"):
            continue
        try:
            while (nxt := next(src)).startswith("!!"):
                raw.append(nxt)
            src.pass_back(nxt)
        except StopIteration:
            break
    return raw


def classify(expect, got):
    """Signature (diff class) of the first difference."""
    for i, e in enumerate(expect):
        if i >= len(got):
            return "missing-" + ("statement" if e[0] == "s" else "doc"), f"expected {e} but output ended"
        g = got[i]
        if e == g:
            continue
        if e[0] == "d":
            e = ["d", e[1].rstrip()]
            if e == g:
                continue
        if g[0] == "unlexable":
            return "statement-garbled", f"expected {e}, reader returned {g[1]!r} ({g[2]})"
        if e[0] == "s" and g[0] == "s":
            et, gt = e[1], g[1]
            elits = [t for t in et if t[0] == "lit"]
            glits = [t for t in gt if t[0] == "lit"]
            if [t for t in et if t[0] != "lit"] == [t for t in gt if t[0] != "lit"] and elits != glits:
                return "literal-text-changed", f"expected {elits} got {glits}"
            if len(gt) > len(et) and gt[:len(et)] == et:
                return "statements-merged-or-comment-kept", f"expected {et} got {gt}"
            if len(gt) < len(et) and et[:len(gt)] == gt:
                return "statement-truncated", f"expected {et} got {gt}"
            return "statement-tokens-differ", f"expected {et} got {gt}"
        if e[0] == "s" and g[0] == "d":
            return "code-became-doc", f"expected {e} got {g}"
        if e[0] == "d" and g[0] == "s":
            return "doc-missing-or-misplaced", f"expected {e} got {g}"
        return "doc-text-differs", f"expected {e} got {g}"
    if len(got) > len(expect):
        g = got[len(expect)]
        return "extra-" + ("statement" if g[0] != "d" else "doc"), f"unexpected extra item {g}"
    return None, None


def check(case) -> Result:
    res = Result(nontrivial=case.get("nontrivial", False), classes=list(case.get("features", [])))
    if case.get("enum"):
        res.digest = "enum"
    res.sample = {"text": case["text"], "expect": case["expect"]}
    try:
        got, raw = read_items(case["text"])
    except Exception as e:
        import traceback
        tb = traceback.extract_tb(e.__traceback__)
        where = next((f"{os.path.basename(f.filename)}:{f.name}" for f in reversed(tb)
                      if "/ford/" in f.filename), "?")
        res.fail(f"exception:{type(e).__name__}@{where}", f"{type(e).__name__}: {e} on input {case['text']!r}")
        return res
    expect = [[e[0], e[1].rstrip()] if e[0] == "d" else e for e in case["expect"]]
    sig, msg = classify(expect, got)
    if sig:
        res.fail(sig, f"{msg}; input={case['text']!r}; reader output={raw!r}")
    elif ";" in case["text"]:
        # the same lines in the same order when the reader is driven as the parser drives it (look-ahead + pass_back)
        try:
            raw2 = read_raw_like_parser(case["text"])
        except Exception as e:
            res.fail(f"lookahead-exception:{type(e).__name__}", f"{type(e).__name__}: {e} on input {case['text']!r}")
            return res
        if raw2 != raw:
            res.fail("lookahead-order", f"read with look-ahead and pass_back: {raw2!r}; read straight: {raw!r}; input={case['text']!r}")
    return res
