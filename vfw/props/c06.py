"""C06 - USE association imports exactly the accessible names.

Generated: module graphs (chains, diamonds, a module used twice) with default public/private,
explicit access, re-export lists, and every USE form; consumer scopes (module specification
parts, module procedures, programs, external procedures, interface bodies) that *reference*
imported names and deliberately-not-imported names (decoys, supplied by a stub module that
is not part of the project).  Oracle: every reference slot observed after correlate() equals
the entity designated by the independent implementation vfw.refsem; all under several
file-enumeration orders (schedules owned by the harness).
"""
from __future__ import annotations

import json
import re

import itertools

from vfw import fordapi, model, refsem, render
from vfw.choose import Chooser, from_bytes
from vfw.runner import Result

ID = "C06"
LEVEL = "exploration"
TECHNIQUE = ("property-based testing: generated module graphs and USE forms, differential against an independent "
             "implementation of USE association; file-order permutations as schedules")
RULE = ("case = generated project of 2-5 modules + consumer scopes, evaluated under several file orders; non-trivial iff "
        "some checked reference resolves through >=2 modules (re-export) or through a rename; distinct by SHA-1 of the files")
ASSUMPTIONS = [
    "vfw.refsem implements F2008 11.2.2 (USE: ONLY, rename, re-export filtered by the re-exporting module's accessibility)",
    "decoy names are made legal by a stub module outside the project; FORD must leave them unresolved",
    "gfortran accepts every program (with its stub) behind a reported violation",
]
FORD_OPTS = dict(display=["public", "private", "protected"], proc_internals=True)
I = {"base": "integer", "kind": None}


def budget(tier):
    if tier == "quick":
        return {"examples": 9600, "orders": 3, "shrink_cap_s": 40}
    return {"examples": 64000, "orders": 24, "shrink_cap_s": 240, "wall_cap_s": 3000}


def _var(name, ts=I, **kw):
    d = {"d": "var", "ts": dict(ts), "attrs": kw.pop("attrs", []), "dimattr": None, "intent": kw.pop("intent", None),
         "optional": False, "parameter": False, "access": kw.pop("access", None), "no_stmt": True,
         "ents": [{"name": name, "dim": None, "init": kw.pop("init", None), "points": kw.pop("points", False), "doc": None}]}
    if d["access"]:
        d["access_place"] = "decl"
    return d


class Builder:
    def __init__(self, ch: Chooser, excl=()):
        self.ch = ch
        self.excl = set(excl)
        self.n = 0
        self.files = []
        self.refs = []
        self.stub = {"type": set(), "proc": set(), "absint": set(), "var": set(), "generic": set()}
        self.kind_of = {}          # entity ident -> "type"|"sub"|"generic"|"absint"|"var"
        self.feats = set()

    def fresh(self, p):
        self.n += 1
        return f"{p}{self.n}"

    def project(self):
        return {"files": self.files}

    # ---- modules
    def module(self, idx, earlier):
        ch = self.ch
        name = f"m{idx}"
        m = {"k": "module", "name": name, "uses": [], "default_access": ch.weighted([(3, None), (2, "private"), (1, "public")]),
             "access_pos": "early", "decls": [], "procs": [], "public_names": [], "private_names": [], "doc": None}
        if m["default_access"] and "late_default_access" not in self.excl and ch.bool(1, 3):
            m["access_pos"] = "late"        # the bare PRIVATE / PUBLIC statement follows the declarations
            self.feats.add("default-access:late")
        acc = lambda: ch.weighted([(3, None), (1, "public"), (1, "private")])
        for _ in range(ch.count(0, 2)):
            t = self.fresh("t")
            a = acc()
            m["decls"].append({"d": "type", "name": t, "abstract": False, "extends": None, "access": a,
                               "access_how": ch.choice(["attr", "stmt_after", "stmt_before"]) if a else "attr",
                               "sequence": False, "private_comps": False, "comps": [_var(self.fresh("c"))],
                               "private_binds": False, "binds": [], "finals": [], "doc": None})
            self.kind_of[f"{name}/{t}"] = "type"
        for _ in range(ch.count(0, 2)):
            s = self.fresh("s")
            a = acc()
            m["procs"].append({"k": "subroutine", "name": s, "args": [], "prefix": [], "decls": [], "exec": [], "procs": [],
                               "uses": [], "doc": None, "access": a, "access_how": ch.choice(["stmt_after", "stmt_before"])})
            self.kind_of[f"{name}/{s}"] = "sub"
        if ch.bool(1, 3):
            g, sp = self.fresh("g"), self.fresh("gs")
            arg = self.fresh("a")
            m["procs"].append({"k": "subroutine", "name": sp, "args": [arg], "prefix": [], "decls": [_var(arg, intent="in")],
                               "exec": [], "procs": [], "uses": [], "doc": None, "access": "private", "access_how": "stmt_after"})
            a = acc()
            m["decls"].append({"d": "interface", "form": "generic", "name": g, "modprocs": [sp], "bodies": [], "doc": None,
                               "access": a, "access_how": ch.choice(["stmt_after", "stmt_before"])})
            self.kind_of[f"{name}/{g}"] = "generic"
            self.kind_of[f"{name}/{sp}"] = "sub1"
        if ch.bool(1, 3):
            ai = self.fresh("ai")
            a = acc()
            m["decls"].append({"d": "interface", "form": "abstract", "doc": None, "bodies": [
                {"k": "subroutine", "name": ai, "args": [], "prefix": [], "decls": [], "doc": None, "access": a,
                 "access_how": ch.choice(["stmt_after", "stmt_before"])}]})
            self.kind_of[f"{name}/{ai}"] = "absint"
        for _ in range(ch.count(0, 2)):
            v = self.fresh("v")
            # PROTECTED is not an access-spec: a protected variable of a default-private module is
            # private.  FORD models `protected` as a third accessibility level, so it is generated
            # only where it is also public (see DESIGN.md, C06 soundness notes).
            a = ch.weighted([(3, None), (1, "public"), (1, "private")] +
                            ([(1, "protected")] if m["default_access"] != "private" else []))
            m["decls"].append(_var(v, access=a))
            self.kind_of[f"{name}/{v}"] = "var"
        # uses of earlier modules
        for j in earlier:
            if ch.bool(1, 2) or (idx == j + 1 and ch.bool(2, 3)):
                self.add_uses(m, f"m{j}")
        return m

    def sem(self, extra_units=()):
        files = list(self.files)
        if extra_units:
            files = files + [{"path": "src/_tmp.f90", "units": list(extra_units)}]
        return refsem.Sem({"files": files})

    def add_uses(self, scope, mname, sem=None):
        """Append one or two USE statements of module `mname` to scope (all forms)."""
        ch = self.ch
        sem = sem or self.sem()
        X = sem.exports(mname)
        names = sorted(set(n for cls in X for n in X[cls]))
        already = set()
        for u in scope["uses"]:
            imp = sem.imports(u)
            for cls in imp:
                already.update(imp[cls])
        for d in scope.get("decls", []):
            pass
        form = ch.weighted([(3, "plain"), (3, "only"), (2, "rename"), (2, "only+rename"), (1, "twice")] +
                           ([(1, "only-empty")] if "use.only_empty" not in self.excl else []))
        if "use.rename_without_only" in self.excl and form == "rename":
            form = "only+rename"
        if not names and form not in ("plain", "only-empty"):
            form = "plain"
        nature = "non_intrinsic" if ch.bool(1, 6) else None
        self.feats.add("use:" + form + (":nature" if nature else ""))

        def rename_pairs(pool, k):
            out = []
            for rem in pool[:k]:
                out.append([self.fresh("r"), rem])
            return out

        if form == "plain":
            scope["uses"].append({"module": mname, "only": None, "renames": [], "nature": nature})
        elif form == "only-empty":
            # `use m, only:` makes nothing of m accessible
            scope["uses"].append({"module": mname, "only": [], "renames": [], "nature": nature})
        elif form == "only":
            pick = [n for n in names if ch.bool(1, 2)] or names[:1]
            scope["uses"].append({"module": mname, "only": [[n, None] for n in pick], "renames": [], "nature": nature})
        elif form == "rename":
            pool = ch.shuffle(names)
            scope["uses"].append({"module": mname, "only": None, "renames": rename_pairs(pool, ch.count(1, 2)), "nature": nature})
        elif form == "only+rename":
            pool = ch.shuffle(names)
            k = ch.count(1, 2)
            ren = rename_pairs(pool, k)
            plain = [[n, None] for n in pool[k:] if ch.bool(1, 2)]
            if "use.two_names" not in self.excl and ch.bool(1, 3):
                # one entity under two names: `only: x, r => x`
                plain.append([ren[0][1], None])
                self.feats.add("use:entity-under-two-names")
            scope["uses"].append({"module": mname, "only": ch.shuffle(ren + plain), "renames": [], "nature": nature})
        else:
            pool = ch.shuffle(names)
            half = max(1, len(pool) // 2)
            scope["uses"].append({"module": mname, "only": [[n, None] for n in pool[:half]], "renames": [], "nature": nature})
            rest = pool[half:]
            if rest:
                scope["uses"].append({"module": mname, "only": [[n, None] for n in rest if ch.bool(2, 3)] or [[rest[0], None]],
                                      "renames": [], "nature": None})
            else:
                scope["uses"].append({"module": mname, "only": [[pool[0], None]], "renames": [], "nature": None})
        # imported names must not clash with names already imported *for another entity*: names are
        # unique per project and rename targets are fresh, so clashes cannot arise.

    def reexport_lists(self, m):
        """public :: / private :: statements naming use-associated entities."""
        ch = self.ch
        sem = self.sem([m])
        s = sem.modules[m["name"]]
        imported = set()
        count = {}
        for u in m["uses"]:
            imp = sem.imports(u)
            for cls in imp:
                imported.update(imp[cls])
                for n, e in imp[cls].items():
                    count.setdefault(e, set()).add(n)
        # (gfortran mishandles one entity imported under two names with different accessibility:
        #  access lists only name entities imported under a single name)
        multi = set(n for e, ns in count.items() if len(ns) > 1 for n in ns)
        imported = sorted(imported - multi)
        if not imported:
            return
        if m["default_access"] == "private":
            m["public_names"] = [n for n in imported if ch.bool(1, 2)]
            if m["public_names"]:
                self.feats.add("reexport:public-list")
        elif ch.bool(1, 3):
            m["private_names"] = [n for n in imported if ch.bool(1, 3)]
            if m["private_names"]:
                self.feats.add("reexport:private-list")

    # ---- references
    def add_refs(self, scope_node, sem_scope_path, is_exec, sem, ifbody_arg=None):
        """Reference visible and invisible (decoy) names from the given scope."""
        ch = self.ch
        s = sem.scopes[tuple(sem_scope_path)] if ifbody_arg is None else sem.ifbodies[id(scope_node)]
        vis = sem.visible(s)
        own_unit = sem_scope_path[0]
        # all names that exist in modules this scope uses (directly), visible or not
        universe = {"type": {}, "proc": {}, "absint": {}, "var": {}}
        for u in scope_node.get("uses", []):
            mod = sem.modules.get(u["module"].lower())
            if not mod:
                continue
            todo, seen = [mod], set()
            while todo:
                mm = todo.pop()
                if mm.path in seen:
                    continue
                seen.add(mm.path)
                for cls in universe:
                    for n, e in mm.locals[cls].items():
                        universe[cls].setdefault(n, e)
                for uu in mm.node.get("uses", []):
                    if uu["module"].lower() in sem.modules:
                        todo.append(sem.modules[uu["module"].lower()])
            for loc, rem in (u.get("renames") or []):
                pass
        cands = []
        for cls in ("type", "proc", "absint", "var"):
            for n, e in vis[cls].items():
                if e.split("/")[0] != own_unit or True:
                    if e.startswith(tuple(x + "/" for x in sem.modules)) and not e.startswith("/".join(sem_scope_path) + "/"):
                        cands.append((cls, n, e))
            for n, e in universe[cls].items():
                if n not in vis["type"] and n not in vis["proc"] and n not in vis["absint"] and n not in vis["var"]:
                    cands.append((cls, n, None))
        cands = ch.shuffle(sorted(cands, key=str))[:6]
        decoys = []
        for cls, n, ent in cands:
            kind = self.kind_of.get(ent) if ent else None
            if ent is None:
                # decoy: find what kind of thing the hidden entity is, to declare a stub of that kind
                hidden = universe[cls][n]
                kind = self.kind_of.get(hidden)
            if kind is None:
                continue
            if kind == "type":
                if ifbody_arg is not None or ch.bool(2, 3):
                    v = self.fresh("refv")
                    scope_node["decls"].append(_var(v, {"base": "type", "proto": n}))
                    if ifbody_arg is not None:
                        scope_node["args"].append(v)
                    self.refs.append({"scope": list(sem_scope_path), "ifbody": ifbody_arg, "slot": "var", "at": v,
                                      "name": n, "expect": ent})
                else:
                    t = self.fresh("tx")
                    scope_node["decls"].append({"d": "type", "name": t, "abstract": False, "extends": n, "access": None,
                                                "access_how": "attr", "sequence": False, "private_comps": False,
                                                "comps": [_var(self.fresh("c"))], "private_binds": False, "binds": [],
                                                "finals": [], "doc": None})
                    self.refs.append({"scope": list(sem_scope_path), "ifbody": None, "slot": "extends", "at": t,
                                      "name": n, "expect": ent})
            elif kind in ("sub", "sub1", "generic"):
                if is_exec and ifbody_arg is None and ch.bool(2, 3):
                    call = f"call {n}()" if kind == "sub" else f"call {n}(1)"
                    scope_node["exec"].append(call)
                    self.refs.append({"scope": list(sem_scope_path), "ifbody": None, "slot": "call", "at": n,
                                      "name": n, "expect": ent})
                elif kind != "generic" and ifbody_arg is None:
                    v = self.fresh("pp")
                    scope_node["decls"].append(_var(v, {"base": "procedure", "proto": n}, attrs=["pointer"],
                                                    init="null()", points=True))
                    self.refs.append({"scope": list(sem_scope_path), "ifbody": None, "slot": "var", "at": v,
                                      "name": n, "expect": ent})
                else:
                    continue
            elif kind == "absint":
                if ifbody_arg is not None:
                    continue
                v = self.fresh("pp")
                scope_node["decls"].append(_var(v, {"base": "procedure", "proto": n}, attrs=["pointer"],
                                                init="null()", points=True))
                self.refs.append({"scope": list(sem_scope_path), "ifbody": None, "slot": "var", "at": v,
                                  "name": n, "expect": ent})
            elif kind == "var":
                if ifbody_arg is not None:
                    continue
                nl = self.fresh("nl")
                scope_node["decls"].append({"d": "namelist", "name": nl, "vars": [n], "doc": None})
                self.refs.append({"scope": list(sem_scope_path), "ifbody": None, "slot": "namelist", "at": nl,
                                  "name": n, "expect": ent})
            if ent is None:
                decoys.append((kind, n))
                self.feats.add("decoy:" + kind)
            else:
                self.feats.add("ref:" + kind)
        if decoys:
            stub = f"ext_stub_{self.fresh('x')}"
            scope_node["uses"].append({"module": stub, "only": [[n, None] for _, n in decoys], "renames": [], "nature": None})
            if scope_node["k"] == "module" and scope_node.get("default_access") != "private":
                # keep the stub's entities out of this module's exports
                scope_node.setdefault("private_names", []).extend(n for _, n in decoys)
            self.stubs.append((stub, decoys))

    stubs: list = []


def stub_source(stubs):
    out = []
    for name, decoys in stubs:
        out.append(f"module {name}\nimplicit none")
        body = []
        for kind, n in decoys:
            if kind == "type":
                out.append(f"type {n}\ninteger :: q\nend type {n}")
            elif kind == "var":
                out.append(f"integer :: {n}")
            elif kind == "absint":
                out.append(f"abstract interface\nsubroutine {n}()\nend subroutine\nend interface")
            elif kind == "generic":
                out.append(f"interface {n}\nmodule procedure {n}_spec\nend interface")
                body.append(f"subroutine {n}_spec(a)\ninteger, intent(in) :: a\nend subroutine")
            elif kind == "sub":
                body.append(f"subroutine {n}()\nend subroutine")
            elif kind == "sub1":
                body.append(f"subroutine {n}(a)\ninteger, intent(in) :: a\nend subroutine")
        if body:
            out.append("contains")
            out.extend(body)
        out.append(f"end module {name}\n")
    return "\n".join(out)


def gen_case(ch: Chooser, excl=()):
    b = Builder(ch, excl)
    b.stubs = []
    k = ch.count(2, 5)
    for i in range(k):
        m = b.module(i, list(range(i)))
        b.reexport_lists(m)
        b.files.append({"path": f"src/m{i}.f90", "form": "free", "units": [m], "doc": None})
    # consumers
    sem = b.sem()
    consumers = []
    modnames = [f"m{i}" for i in range(k)]
    # (a) module specification parts reference what they import
    for i in range(1, k):
        m = b.files[i]["units"][0]
        if m["uses"] and ch.bool(2, 3):
            consumers.append(("modspec", m, [m["name"]], False))
    # (b) a module procedure - and an internal procedure inside it - with their own USE of any
    #     module that does not (transitively) depend on the host module
    def all_uses(node):
        for u in node.get("uses", []):
            yield u["module"]
        for p_ in node.get("procs", []):
            yield from all_uses(p_)

    def closure():
        direct = {}
        for i_ in range(k):
            direct[i_] = {int(x[1:]) for x in all_uses(b.files[i_]["units"][0]) if x[0] == "m" and x[1:].isdigit()}
        deps_ = {i_: set(direct[i_]) for i_ in range(k)}
        changed = True
        while changed:
            changed = False
            for i_ in range(k):
                for j_ in list(deps_[i_]):
                    new_ = deps_[j_] - deps_[i_]
                    if new_:
                        deps_[i_] |= new_
                        changed = True
        return deps_

    for i in range(k):
        if ch.bool(1, 2):
            m = b.files[i]["units"][0]
            deps = closure()
            allowed = [x for x in range(k) if x != i and i not in deps[x]]
            p = {"k": "subroutine", "name": b.fresh("cons"), "args": [], "prefix": [], "decls": [], "exec": [], "procs": [],
                 "uses": [], "doc": None}
            for j in ch.shuffle(allowed)[: ch.count(0, 2)]:
                b.add_uses(p, f"m{j}", sem)
            m["procs"].append(p)
            if p["uses"]:
                consumers.append(("modproc", p, [m["name"], p["name"]], True))
            if ch.bool(1, 2):
                q = {"k": "subroutine", "name": b.fresh("inner"), "args": [], "prefix": [], "decls": [], "exec": [],
                     "procs": [], "uses": [], "doc": None}
                used_here = {u["module"] for u in p["uses"]}
                for j in [x for x in ch.shuffle(allowed) if f"m{x}" not in used_here][: ch.count(1, 2)]:
                    b.add_uses(q, f"m{j}", sem)
                p["procs"].append(q)
                if q["uses"]:
                    consumers.append(("innerproc", q, [m["name"], p["name"], q["name"]], True))
                    b.feats.add("use-in-internal-procedure")
                    if "namelist_dummy" not in b.excl and ch.bool(1, 3):
                        # a namelist group naming a dummy argument (written with a capital letter where it is declared)
                        da, nl = b.fresh("Darg"), b.fresh("nl")
                        q["args"].append(da)
                        q["decls"].append(_var(da, intent="inout"))
                        q["decls"].append({"d": "namelist", "name": nl, "vars": [da.lower()], "doc": None})
                        b.refs.append({"scope": [x.lower() for x in (m["name"], p["name"], q["name"])], "ifbody": None,
                                       "slot": "namelist", "at": nl, "name": da.lower(), "expect": None})
                        b.feats.add("namelist-of-dummy")
    # (c) program, (d) external subroutine
    for kind in ("program", "subroutine"):
        if ch.bool(2, 3):
            u = {"k": kind, "name": b.fresh("main" if kind == "program" else "ext"), "args": [], "prefix": [], "decls": [],
                 "exec": [], "procs": [], "uses": [], "doc": None}
            for j in ch.shuffle(list(range(k)))[: ch.count(1, 2)]:
                b.add_uses(u, f"m{j}", sem)
            b.files.append({"path": f"src/{u['name']}.f90", "form": "free", "units": [u], "doc": None})
            consumers.append((kind, u, [u["name"]], True))
    # (e) interface body with USE inside, hosted by an extra module
    if ch.bool(1, 2):
        host = {"k": "module", "name": b.fresh("mh"), "uses": [], "default_access": None, "access_pos": "early",
                "decls": [], "procs": [], "doc": None}
        body = {"k": "subroutine", "name": b.fresh("xb"), "args": [], "prefix": [], "decls": [], "uses": [], "doc": None}
        b.add_uses(body, ch.choice(modnames), sem)
        # (the body sits in a plain, an abstract or a generic interface block)
        form = ch.choice(["explicit", "abstract", "generic"]) if "ifbody_forms" not in b.excl else "explicit"
        decl = {"d": "interface", "form": form, "bodies": [body], "doc": None}
        if form == "generic":
            decl.update(name=b.fresh("gen"), modprocs=[], access=None)
        host["decls"].append(decl)
        b.feats.add("use-in-interface-body:" + form)
        b.files.append({"path": f"src/{host['name']}.f90", "form": "free", "units": [host], "doc": None})
        consumers.append(("ifbody", body, [host["name"], body["name"]], False))
    sem = b.sem()
    for kind, node, path, is_exec in consumers:
        b.add_refs(node, [p.lower() for p in path], is_exec, sem, ifbody_arg=(node["name"] if kind == "ifbody" else None))
    proj = b.project()
    # expected resolution must be computed on the final model (references add local names only)
    sem = refsem.Sem(proj)
    nontrivial = False
    for r in b.refs:
        if r["ifbody"]:
            host = sem.scopes[tuple(r["scope"][:-1])]
            s = next(c for c in host.children if c.kind == "ifbody" and c.path == tuple(r["scope"]))
        else:
            s = sem.scopes[tuple(r["scope"])]
        classes = {"var": ["type"], "extends": ["type"], "call": ["proc"], "namelist": ["var"]}[r["slot"]]
        if r["slot"] == "var" and r["at"].startswith("pp"):
            classes = ["proc", "absint"]
        exp = sem.resolve(s, r["name"], classes)
        r["expect"] = exp
        r["via_rename"] = bool(exp and exp.rsplit("/", 1)[-1] != r["name"].lower())
        if exp and exp.split("/")[0] not in [u["module"].lower() for u in s.node.get("uses", [])]:
            nontrivial = True
            b.feats.add("resolved-through-reexport")
        if exp and exp.rsplit("/", 1)[-1] != r["name"].lower():
            nontrivial = True
            b.feats.add("resolved-through-rename")
    # call references of one scope are checked together, as the exact set of recorded calls
    merged, calls = [], {}
    for r in b.refs:
        if r["slot"] != "call":
            merged.append(r)
            continue
        key = tuple(r["scope"])
        c = calls.setdefault(key, {"scope": r["scope"], "ifbody": None, "slot": "calls", "at": "calls", "name": [],
                                   "expect": [], "via_rename": False})
        c["name"].append(r["name"])
        c["expect"].append(r["expect"] or "unresolved:" + r["name"].lower())
        c["via_rename"] |= r["via_rename"]
    for c in calls.values():
        c["expect"] = sorted(set(c["expect"]))
        merged.append(c)
    b.refs = merged
    if "intrinsic_named_module" not in b.excl and ch.bool(1, 5):
        # one module of the project is named like a module FORD knows as intrinsic / third-party (a serial MPI stub,
        # a replacement omp_lib): the project's own module is the one that is used
        mods = sorted({u["name"] for f in proj["files"] for u in f["units"] if u["k"] == "module" and re.fullmatch(r"m\d", u["name"])})
        if mods:
            old, new = ch.choice(mods), ch.choice(["mpi", "omp_lib", "iso_fortran_env"])
            text = json.dumps({"proj": proj, "refs": b.refs})
            text = re.sub(rf"\b{old}\b", new, text)
            data = json.loads(text)
            proj, b.refs = data["proj"], data["refs"]
            for r in b.refs:
                if r["slot"] == "calls":
                    r["expect"] = sorted(set(r["expect"]))
            b.feats.add("module-named-like-intrinsic")
    files, used = render.render_project(proj, ch, features={"comments": False})
    return {"files": files, "refs": b.refs, "stub": stub_source(b.stubs), "classes": sorted(b.feats),
            "nontrivial": nontrivial, "order_seed": ch.int(256)}


def strategy(tier, excl):
    excl = tuple(excl)
    n = budget(tier)["orders"]

    def make(ch):
        c = gen_case(ch, excl)
        c["n_orders"] = n
        return c
    return from_bytes(make, min_size=200, max_size=1500)


# ----------------------------------------------------------------------------- observation
def find_scope(project, path, ifbody=None):
    import ford.sourceform as sf
    name = path[0]
    cur = None
    if ":" in name:
        anc, sub = name.split(":")
        for u in project.submodules:
            if str(u.name).lower() == sub and str(getattr(u.ancestor_module, "name", u.ancestor_module)).lower() == anc:
                cur = u
                break
    else:
        for coll in (project.modules, project.submodules, project.programs, project.procedures):
            for u in coll:
                if str(u.name).lower() == name and isinstance(getattr(u, "parent", None), sf.FortranSourceFile):
                    cur = u
                    break
            if cur:
                break
    if cur is None:
        return None
    for nm in path[1:]:
        nxt = None
        for p in list(getattr(cur, "functions", [])) + list(getattr(cur, "subroutines", [])) + \
                list(getattr(cur, "modprocedures", [])) + list(getattr(cur, "modsubroutines", [])) + \
                list(getattr(cur, "modfunctions", [])):
            if p.name.lower() == nm:
                nxt = p
        if nxt is None:
            for i in list(getattr(cur, "interfaces", [])) + list(getattr(cur, "absinterfaces", [])):
                pr = getattr(i, "procedure", None)
                if pr is not None and pr.name.lower() == nm:
                    nxt = pr
                for pr in list(getattr(i, "functions", [])) + list(getattr(i, "subroutines", [])):
                    if pr.name.lower() == nm:           # a body of a generic interface block
                        nxt = pr
        if nxt is None:
            return None
        cur = nxt
    return cur


def observe(project, r):
    import ford.sourceform as sf
    s = find_scope(project, r["scope"])
    if s is None:
        return "<scope not found>"
    slot = r["slot"]
    if slot == "var":
        for v in list(getattr(s, "variables", [])) + list(getattr(s, "args", [])):
            if isinstance(v, sf.FortranVariable) and v.name.lower() == r["at"].lower():
                p = v.proto[0] if v.proto else None
                return refsem.ford_ident(p) if not isinstance(p, str) else None
        return "<variable not found>"
    if slot == "extends":
        for t in getattr(s, "types", []):
            if t.name.lower() == r["at"].lower():
                return refsem.ford_ident(t.extends) if not isinstance(t.extends, str) else None
        return "<type not found>"
    if slot == "namelist":
        for n in getattr(s, "namelists", []):
            if n.name.lower() == r["at"].lower():
                v = n.variables[0]
                return refsem.ford_ident(v) if not isinstance(v, str) else None
        return "<namelist not found>"
    if slot in ("binding", "bindiface"):
        tname, bname = r["at"].split("%")
        for t in getattr(s, "types", []):
            if t.name.lower() == tname.lower():
                for bp in t.boundprocs:
                    if bp.name.lower() == bname.lower() and bp.parent is t:
                        x = bp.bindings[0] if slot == "binding" else bp.proto
                        return refsem.ford_ident(x) if not isinstance(x, str) else None
        return "<binding not found>"
    if slot == "gbinding":
        # the procedure a generic binding's specific binding stands for, as seen from one type
        tname, gname, bname = r["at"].split("%")
        for t in getattr(s, "types", []):
            if t.name.lower() == tname.lower():
                for bp in t.boundprocs:
                    if bp.name.lower() == gname.lower() and bp.generic:
                        for x in bp.bindings:
                            if getattr(x, "name", x).lower() == bname.lower():
                                if isinstance(x, str):
                                    return None
                                y = x.bindings[0] if getattr(x, "bindings", None) else None
                                return refsem.ford_ident(y) if y is not None and not isinstance(y, str) else None
        return "<generic binding not found>"
    if slot == "final":
        tname, fname = r["at"].split("%")
        for t in getattr(s, "types", []):
            if t.name.lower() == tname.lower():
                for fp in t.finalprocs:
                    if fp.name.lower() == fname.lower():
                        return refsem.ford_ident(fp.procedure) if fp.procedure is not None else None
        return "<final not found>"
    if slot == "specific":
        for i in getattr(s, "interfaces", []):
            if getattr(i, "generic", False) and i.name.lower() == r["at"].lower():
                for mp in i.modprocs:
                    if mp.name.lower() == r["name"].lower():
                        return refsem.ford_ident(mp.procedure) if mp.procedure is not None else None
                for v in getattr(i, "variables", []):
                    if v.name.lower() == r["name"].lower():
                        return refsem.ford_ident(v)
        # FORD leaves a specific it cannot find out of the interface (with a warning): unresolved
        return None
    if slot == "constructor":
        for t in getattr(s, "types", []):
            if t.name.lower() == r["at"].lower():
                return refsem.ford_ident(t.constructor) if t.constructor is not None else None
        return "<type not found>"
    if slot == "subparent":
        ps = s.parent_submodule
        anc = s.ancestor_module
        a = str(getattr(anc, "name", anc)).lower()
        if ps is None:
            return a
        if isinstance(ps, str):
            return f"{a}:unresolved:{ps.lower()}"
        return f"{str(getattr(ps.ancestor_module, 'name', ps.ancestor_module)).lower()}:{ps.name.lower()}"
    if slot == "mpiface":
        for p in list(getattr(s, "modprocedures", [])) + list(getattr(s, "modsubroutines", [])) + \
                list(getattr(s, "modfunctions", [])) + list(getattr(s, "subroutines", [])) + list(getattr(s, "functions", [])):
            if p.name.lower() == r["at"].lower():
                m = p.module
                if m is True or m is False or m is None or isinstance(m, str):
                    return None
                return refsem.ford_ident(m)
        return "<module procedure not found>"
    if slot == "calls":
        out = []
        for c in getattr(s, "calls", []):
            out.append("unresolved:" + c.lower() if isinstance(c, str) else refsem.ford_ident(c))
        # (one procedure called under two local names is recorded twice; "each recorded once" is C08's claim)
        return sorted(set(out))
    return "<?>"


def orders(paths, n, seed):
    paths = sorted(paths)
    if len(paths) <= 4 and n >= 24:
        return [list(p) for p in itertools.permutations(paths)]
    out = [paths, list(reversed(paths))]
    ch = Chooser(bytes((seed * 7 + i * 13) % 256 for i in range(64)))
    while len(out) < n:
        out.append(ch.shuffle(paths))
    return out[:n]


def signature_for(r):
    if r["slot"] == "calls":
        return "calls" + (":renamed" if r.get("via_rename") else "")
    if r["expect"] is None:
        return "decoy-resolved:" + r["slot"]
    if r.get("via_rename"):
        return "renamed:" + r["slot"]
    return "imported:" + r["slot"]


def check(case, n_orders=None) -> Result:
    res = Result(nontrivial=case.get("nontrivial", False), classes=list(case.get("classes", [])))
    res.sample = {"files": case["files"], "refs": case["refs"][:6]}
    paths = sorted(case["files"])
    n = n_orders or case.get("n_orders") or 3
    res.evaluations = 0
    first = None
    for order in orders(paths, n, case.get("order_seed", 0)):
        res.evaluations += 1
        try:
            with fordapi.Sandbox(case["files"], prefix="vfw-c06-") as root:
                project, out = fordapi.parse_project(root, file_order=order, **FORD_OPTS)
                obs = [observe(project, r) for r in case["refs"]]
        except Exception as e:
            res.fail(fordapi.exception_signature(e), f"{type(e).__name__}: {e} (file order {order})")
            break
        for r, o in zip(case["refs"], obs):
            if o != r["expect"]:
                res.fail(signature_for(r) + ("" if first is None or first == obs else "|order-dependent"),
                         f"in scope {'/'.join(r['scope'])}: {r['slot']} reference '{r['name']}' at {r['at']}: expected "
                         f"{r['expect']!r} got {o!r} (file order {order})")
        if first is None:
            first = obs
        elif obs != first:
            res.fail("order-dependent", f"resolution differs between file orders: {first} vs {obs} (order {order})")
        if res.failures:
            break
    if res.failures:
        # gate_extra: sources that make the program complete for the compiler but are deliberately not given to FORD
        ok, err = fordapi.gfortran_check(dict(case["files"], **case.get("gate_extra", {})), extra_stub=case.get("stub") or None)
        if not ok:
            res.failures = []
            res.fail("HARNESS:gfortran-rejects-generated-program", err[-700:])
    return res
