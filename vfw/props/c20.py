"""C20 - an unparseable file is skipped without disturbing the rest.

Generated: a valid project P (declaration-rich or call-rich) plus 1-3 extra files obtained
from other valid generated sources by truncation at a statement boundary, splicing, deleting
or duplicating END / CONTAINS lines, swapping unit keywords, inserting arbitrary or malformed
text, or undecodable bytes - read before, between and after the valid files (the harness
owns the file order).  Default settings.  Oracle (differential): the run returns; a file
FORD does not register is named in a diagnostic and then the canonical tree of P's files
(entities, docs, calls, page identifiers) equals the tree of P alone; a watchdog bounds the
run time of every case.
"""
from __future__ import annotations

import base64
import re
import signal

from vfw import extract, fordapi, gen, model, render
from vfw.choose import Chooser, from_bytes
from vfw.props import c08
from vfw.runner import Result

ID = "C20"
LEVEL = "fault_enumeration"
TECHNIQUE = ("fault injection by generated corruption of valid sources (truncation at every statement boundary, "
             "splicing, END/CONTAINS deletion/duplication, keyword swaps, malformed text, undecodable bytes) under "
             "harness-owned file orders; differential oracle against the project without the corrupt file; watchdog")
RULE = ("case = valid project P + 1-3 corrupt files under a chosen read order; non-trivial iff at least one corrupt file is "
        "rejected by FORD and P has >=2 files; distinct by SHA-1 of all files; the thorough tier additionally enumerates "
        "every truncation point of every corruption source")
ASSUMPTIONS = [
    "default settings (dbg on): a file that FORD registers in project.files is 'accepted', otherwise 'rejected'",
    "corrupt files share no global names with P that P references, so 'apart from references into it' is empty",
    "termination is approximated by a 60 s watchdog per case (median case ~30 ms)",
]
WATCHDOG_S = 30
FORD_OPTS = dict(display=["public", "private", "protected"], proc_internals=True)
JUNK = ["this is not fortran", "end", "end module nonexistent", "contains", "&", "& continued", "x = 1 !> inline predoc",
        "x = 'unterminated", "type, extends( :: t", "interface", "((((", "associate (a => b)", "block", ")",
        "end associate", "end block", "module", "program", "end type", "end interface", "submodule (nowhere) lost",
        "module procedure ghost", "use", "integer ::", "subroutine ()", "function f(", "! just a comment",
        "include 'missing_file.inc'", "#define X 1", "\tTAB\tseparated", "end subroutine end", "x = 1;; y = 2;",
        "character(len=*), parameter :: q = \"it's", "final :: nothing", "procedure :: nothing", "generic :: g => a, b",
        "enum, bind(c)", "enumerator :: a = b", "common /blk/", "namelist /nl/",
        # text that looks like console markup, long unterminated literals
        "& see [/quote] for details", "[bold]important[/bold] x = a[1] [/b]", "print *, a[i] [red]",
        "write (*, *) 'a fairly long message that is never closed, value = , and more text follows here",
        'print *, "it is broken here and the text goes on and on and on and on and on and on',
        "msg = 'abc''def''ghi''jkl''mno''pqr''stu''vwx''yz and still no closing quote at all"]


# whole files from the grammar of malformed constructs: entities that refer to themselves
PATHOLOGICAL = [
    "module selfmod\n  interface\n    module subroutine w()\n    end subroutine w\n  end interface\nend module selfmod\n"
    "submodule (selfmod:selfsub) selfsub\nend submodule selfsub\n",
    "module selfext\n  type, extends(loop_t) :: loop_t\n  contains\n    procedure :: foo\n  end type loop_t\ncontains\n"
    "  subroutine foo(self)\n    class(loop_t) :: self\n  end subroutine foo\n  subroutine user()\n    type(loop_t) :: a\n"
    "    call a%foo()\n  end subroutine user\nend module selfext\n",
    "module selfuse\n  use selfuse\n  integer :: x\nend module selfuse\n",
    "subroutine selfcall()\n  call selfcall()\nend subroutine selfcall\n",
]


def budget(tier):
    if tier == "quick":
        return {"examples": 4800, "shrink_cap_s": 40}
    return {"examples": 64000, "shrink_cap_s": 240, "wall_cap_s": 3000, "enum_sources": 40}


def valid_project(ch, kind, excl, assoc=False, want_refs=False, assoc_pool=None):
    refs = []
    if kind == "c08":
        proj, refs, _, _ = c08.gen_model(ch, tuple(excl), assoc_from_unused_procs=assoc, assoc_pool=assoc_pool)
    else:
        proj, _ = gen.gen_project(ch, {"docs": True, "excl": tuple(excl)})
    files, _ = render.render_project(proj, ch, features={"comments": True})
    return (files, refs) if want_refs else files


def calls_in_tree(tree, path):
    """Recorded calls of the unit at `path` (unit/proc/proc) in an extracted tree, or None."""
    for units in tree.values():
        for u in units:
            if u["name"] == path[0]:
                cur = u
                for nm in path[1:]:
                    cur = next((p for p in cur.get("procs", []) if p["name"] == nm), None)
                    if cur is None:
                        return None
                return cur.get("calls")
    return None


KINDS = [(1, "self-reference"), (5, "truncate"), (3, "truncate-in-construct"), (2, "splice"), (2, "drop-end"), (1, "dup-end"), (1, "drop-contains"), (1, "dup-contains"),
         (3, "drop-procedure"),
         (2, "swap-keyword"), (3, "junk"), (1, "bytes"), (1, "empty"), (1, "truncate-midline")]
SWAPS = [("subroutine", "function"), ("module", "program"), ("function", "subroutine"), ("type", "interface"),
         ("interface", "type"), ("program", "module"), ("submodule", "module"), ("associate", "block")]


def plan_corruption(ch):
    """All random decisions of one corruption, drawn *before* the (byte-hungry) projects are generated;
    positions are fractions (0..999) scaled to the source later."""
    return {"kind": ch.weighted(KINDS), "src": ch.int(8), "src2": ch.int(8), "a": ch.int(1000), "b": ch.int(1000),
            "swap": ch.int(len(SWAPS)), "junk": [ch.int(len(JUNK)) for _ in range(ch.count(1, 3))],
            "empty": ch.int(4), "pos": ch.choice(["aaa", "mmm", "zzz"])}


def corrupt(plan, texts, cut=None):
    """texts: list of valid source texts -> (corrupt content (str or {"b64"}), kind)"""
    src = texts[plan["src"] % len(texts)]
    lines = src.split("\n")
    kind = plan["kind"]
    at = lambda n, frac: (frac * (n + 1)) // 1000        # 0..n
    endish = [i for i, l in enumerate(lines) if re.match(r"\s*end\b", l, re.I)]
    contains = [i for i, l in enumerate(lines) if l.strip().lower() == "contains"]
    if kind == "truncate-in-construct":
        # cut inside an open ASSOCIATE / BLOCK / INTERFACE / TYPE / SELECT construct
        inside, depth = [], 0
        for i, l in enumerate(lines):
            t = l.strip().lower()
            if re.match(r"(\w+\s*:\s*)?(associate\s*\(|block$|interface|abstract interface|type\b(?!\s*\()|select)", t):
                depth += 1
            elif re.match(r"end\s*(associate|block$|interface|type|select)", t):
                depth = max(0, depth - 1)
            elif depth:
                inside.append(i)
        if inside:
            k = inside[plan["a"] % len(inside)]
            return "\n".join(lines[:k]) + "\n", kind
        kind = "truncate"
    if kind == "truncate":
        k = cut if cut is not None else at(len(lines) - 1, plan["a"])
        return "\n".join(lines[:k]) + "\n", kind
    if kind == "truncate-midline":
        return src[: at(len(src), plan["a"])], kind
    if kind == "self-reference":
        return PATHOLOGICAL[plan["a"] % len(PATHOLOGICAL)], kind
    if kind == "drop-procedure":
        # remove a whole procedure definition: bindings, generic interfaces, finalisers and calls that name it dangle
        # (the file usually still parses)
        starts = []
        for i, l in enumerate(lines):
            m_ = re.match(r"^\s*(?:[\w()*=]+\s+)*(subroutine|function)\s+(\w+)", l, re.I)
            if m_ and not re.match(r"^\s*end", l, re.I):
                word, name = m_.group(1).lower(), m_.group(2)
                for j in range(i + 1, len(lines)):
                    if re.match(rf"^\s*end\s*{word}\s+{re.escape(name)}\s*(!.*)?$", lines[j], re.I):
                        starts.append((i, j))
                        break
        if starts:
            i, j = starts[plan["a"] % len(starts)]
            return "\n".join(lines[:i] + lines[j + 1:]) + "\n", kind
        kind = "splice"
    if kind == "splice":
        other = texts[plan["src2"] % len(texts)].split("\n")
        return "\n".join(lines[: at(len(lines), plan["a"])] + other[at(len(other), plan["b"]):]) + "\n", kind
    if kind == "drop-end" and endish:
        i = endish[plan["a"] % len(endish)]
        return "\n".join(lines[:i] + lines[i + 1:]) + "\n", kind
    if kind == "dup-end" and endish:
        # an END of a program unit, procedure, type or interface is duplicated: unbalanced for certain
        structural = [i for i in endish if re.match(
            r"\s*end\s*(module|submodule|program|subroutine|function|type|interface|block\s*data|procedure)?\b\s*\w*\s*(!.*)?$",
            lines[i], re.I) and not re.match(r"\s*end\s*(if|do|select|where|forall|associate|block|enum|critical)\b", lines[i], re.I)]
        if structural:
            i = structural[plan["a"] % len(structural)]
            return "\n".join(lines[: i + 1] + [lines[i]] + lines[i + 1:]) + "\n", "dup-end-structural"
        i = endish[plan["a"] % len(endish)]
        return "\n".join(lines[: i + 1] + [lines[i]] + lines[i + 1:]) + "\n", kind
    if kind == "drop-contains" and contains:
        i = contains[plan["a"] % len(contains)]
        return "\n".join(lines[:i] + lines[i + 1:]) + "\n", kind
    if kind == "dup-contains" and contains:
        i = contains[plan["a"] % len(contains)]
        return "\n".join(lines[: i + 1] + ["contains"] + lines[i + 1:]) + "\n", kind
    if kind == "swap-keyword":
        for off in range(len(SWAPS)):
            a, b = SWAPS[(plan["swap"] + off) % len(SWAPS)]
            idx = [i for i, l in enumerate(lines) if re.search(rf"\b{a}\b", l, re.I)]
            if idx:
                i = idx[plan["a"] % len(idx)]
                lines[i] = re.sub(rf"\b{a}\b", b, lines[i], count=1, flags=re.I)
                return "\n".join(lines) + "\n", kind
    if kind == "bytes":
        i = at(len(lines), plan["a"])
        raw = "\n".join(lines[:i]).encode() + b"\n! caf\xe9 \xff\xfe na\xefve\n" + "\n".join(lines[i:]).encode()
        return {"b64": base64.b64encode(raw).decode()}, kind
    if kind == "empty":
        return ["", "\n", "&\n", "   \n\n"][plan["empty"]], kind
    i = at(len(lines), plan["a"])
    junk = [JUNK[j] for j in plan["junk"]]
    return "\n".join(lines[:i] + junk + lines[i:]) + "\n", "junk"


def gen_case(ch: Chooser, excl=()):
    with_directive = "bad_directive" not in excl and ch.bool(1, 8)
    directive_form = ch.int(3)
    pk = ch.choice(["c08", "c01"])
    bk = ch.choice(["c08", "c01"])
    plans = [plan_corruption(ch) for _ in range(ch.weighted([(4, 1), (2, 2), (1, 3)]))]
    order_key = [ch.int(1000) for _ in range(12)]
    bad_first = ch.bool(1, 3)
    if any(pl["kind"] == "truncate-in-construct" for pl in plans) and ch.bool(2, 3):
        pk = bk = "c08"      # executable parts (ASSOCIATE, BLOCK, SELECT) on both sides
    probe = ch.bool(1, 5)       # leak probe: the corrupt file uses P's procedure names as construct-local names
    if probe:
        pk = bk = "c08"
        for pl in plans:
            pl["kind"] = "truncate-in-construct"
        bad_first = True
    P, P_refs = valid_project(ch, pk, excl, want_refs=True)
    pool = sorted({x.rsplit("/", 1)[-1] for r in P_refs for x in r["expect"] if "/" in x and x.count("/") == 1})
    B = valid_project(ch, bk, excl, assoc=True, assoc_pool=pool if probe else None)
    texts = [B[k] for k in sorted(B)]
    bad = {}
    kinds = []
    must_reject = {}
    for i, plan in enumerate(plans):
        content, kind = corrupt(plan, texts)
        # (sometimes below a directory whose name looks like console markup)
        sub = ["", "", "[old]/", "[bold]/"][plan["a"] % 4]
        bad[f"src/{sub}{plan['pos']}_bad{i}.f90"] = content
        if kind == "dup-end-structural":
            must_reject[f"src/{sub}{plan['pos']}_bad{i}.f90"] = "END statement"
        kinds.append(kind)
    preprocess = False
    if with_directive:
        # a file for the preprocessor (upper-case extension) with a directive the preprocessor gives up on
        fn = f"src/{plans[0]['pos']}_cpp.F90"
        bad[fn] = ["#define\nmodule cppbad\nend module cppbad\n", "#undef\nmodule cppbad\nend module cppbad\n",
                   f'#include "{fn.rsplit("/", 1)[-1]}"\nmodule cppbad\nend module cppbad\n'][directive_form]
        kinds.append("bad-directive")
        preprocess = True
    names = sorted(P) + sorted(bad)
    order = [n for _, n in sorted(zip(order_key + [0] * len(names), names), key=lambda t: (t[0], t[1]))]
    if bad_first:
        order = sorted(bad) + [n for n in order if n not in bad]
    full_site = plans[0]["b"] % 6 == 0       # a sample of the cases also renders the whole site
    return {"P": P, "bad": bad, "order": order, "site": full_site and not preprocess, "must_reject": must_reject, "preprocess": preprocess,
            "classes": ["P:" + pk, "B:" + bk] + ["corrupt:" + k for k in kinds] + (["leak-probe"] if probe else []) +
                       (["full-site"] if full_site else []),
            "nfilesP": len(P), "P_calls": [[r["scope"], r["expect"]] for r in P_refs]}


def strategy(tier, excl):
    excl = tuple(excl)
    return from_bytes(lambda ch: gen_case(ch, excl), min_size=400, max_size=4000)


def enumerated(tier, excl):
    """Thorough tier: every truncation point of a number of corruption sources, read first."""
    n = budget(tier).get("enum_sources", 0)
    import hashlib, os
    seed = os.environ.get("VERIF_SEED") or "1"
    for si in range(n):
        data = b"".join(hashlib.sha256(f"{seed}|c20|{si}|{k}".encode()).digest() for k in range(120))
        ch = Chooser(data)
        P = valid_project(ch, "c08", excl)
        B = valid_project(ch, "c08", excl, assoc=True)
        for name, text in sorted(B.items()):
            nlines = text.count("\n")
            for cut in range(nlines + 1):
                content, kind = corrupt({"kind": "truncate", "src": 0}, [text], cut=cut)
                yield {"P": P, "bad": {"src/aaa_bad.f90": content}, "order": ["src/aaa_bad.f90"] + sorted(P),
                       "classes": ["P:c08", "B:c08", "corrupt:truncate-enum"], "nfilesP": len(P), "enum": True}


class Timeout(BaseException):
    """Raised by the watchdog.  Not an Exception: FORD reports any Exception raised while a file is parsed as a parse
    error of that file and carries on, which would turn a hang into an ordinary rejection."""


def _alarm(signum, frame):
    raise Timeout()


def run(files, order, preprocess=False):
    old = signal.signal(signal.SIGALRM, _alarm)
    signal.alarm(WATCHDOG_S)
    try:
        with fordapi.Sandbox(files, prefix="vfw-c20-") as root:
            extra = {"preprocess": True, "keep_fpp": True} if preprocess else {}
            project, out = fordapi.parse_project(root, file_order=order, **extra)     # default settings otherwise
            tree = extract.project_tree(project, root)
            idents = {}
            for coll in ("modules", "submodules", "programs", "procedures", "types", "absinterfaces", "blockdata"):
                for e in getattr(project, coll, []):
                    try:
                        key = f"{coll}:{e.filename.split('/')[-1]}:{str(e.name).lower()}"
                        idents.setdefault(key, []).append(e.ident)
                    except Exception as exc:
                        idents[f"{coll}:{getattr(e, 'name', '?')}"] = [f"<{type(exc).__name__}>"]
            registered = sorted(tree)
            return tree, idents, registered, out
    finally:
        signal.alarm(0)
        signal.signal(signal.SIGALRM, old)


def check(case) -> Result:
    """Each case runs in a forked child: nothing a corrupt file leaves behind in the process can
    influence (or be hidden by) another case, and a hang is killed by the parent."""
    from vfw.runner import isolated
    _warm_up()
    res, status = isolated(_check, case, timeout=3 * WATCHDOG_S)
    if status == "ok":
        return res
    out = Result(classes=list(case.get("classes", [])))
    if status == "timeout":
        out.fail("hang", f"no result after {3 * WATCHDOG_S} s (corrupt files {sorted(case['bad'])}, order {case['order']})")
    else:
        out.fail("HARNESS:child-" + status[:60], status)
    return out


_WARM = False


def _warm_up():
    """Pay one-off costs (lazy imports, regex and lexer caches) in the parent, so that forked
    children start warm.  Uses a fixed valid project; leaves no state that matters (the name
    selector is reset by every run)."""
    global _WARM
    if _WARM:
        return
    _WARM = True
    try:
        run({"src/warm.f90": "module warm\ninteger :: x !! doc\ncontains\nsubroutine s()\ncall s()\nend subroutine\nend module\n"},
            ["src/warm.f90"])
    except Exception:
        pass


def _check(case) -> Result:
    res = Result(classes=list(case.get("classes", [])))
    if case.get("enum"):
        res.digest = None
    res.evaluations = 2
    P, bad = case["P"], case["bad"]
    res.sample = {"bad": {k: (v if isinstance(v, str) else "<bytes>") for k, v in bad.items()}, "order": case["order"],
                  "P_files": sorted(P)}
    try:
        t0, id0, reg0, out0 = run(P, [p for p in case["order"] if p in P])
    except Timeout:
        res.fail("HARNESS:valid-project-timeout", "the valid project alone hit the watchdog")
        return res
    except Exception as e:
        res.fail("HARNESS:valid-project-fails", f"{type(e).__name__}: {e}")
        return res
    files = dict(P)
    files.update(bad)
    try:
        t1, id1, reg1, out1 = run(files, case["order"], preprocess=bool(case.get("preprocess")))
    except SystemExit as e:
        res.fail("run-aborted:SystemExit", f"the run ended with SystemExit({e.code}) with corrupt file(s) {sorted(bad)}")
        return res
    except Timeout:
        res.fail("hang", f"no result after {WATCHDOG_S} s with corrupt file(s) {sorted(bad)} (order {case['order']})")
        return res
    except Exception as e:
        res.fail("run-aborted:" + fordapi.exception_signature(e),
                 f"{type(e).__name__}: {str(e)[:300]} with corrupt file(s) {sorted(bad)}")
        return res
    if case.get("site"):
        # the pages must be written as well, whatever the corrupt files left behind in the entity tree
        from vfw import site as _site
        sfiles = dict(files)
        sfiles["project.md"] = _site.project_file({"project": "P", "src_dir": "./src", "preprocess": False, "parallel": 0,
                                                   "search": False})
        old = signal.signal(signal.SIGALRM, _alarm)
        signal.alarm(WATCHDOG_S)
        try:
            with fordapi.Sandbox(sfiles, prefix="vfw-c20s-") as sroot:
                _site.build_site(sroot, argv=[])         # through the real command-line front end
                res.evaluations += 1
                if not (sroot / "doc" / "index.html").exists():
                    res.fail("site-not-written", "no index.html although the valid files were parsed")
        except Timeout:
            res.fail("hang", f"site build: no result after {WATCHDOG_S} s with corrupt file(s) {sorted(bad)}")
        except SystemExit as e:
            res.fail("site-aborted:SystemExit", f"site build ended with SystemExit({str(e)[:200]}) with corrupt file(s) {sorted(bad)}")
        except Exception as e:
            res.fail("site-aborted:" + fordapi.exception_signature(e),
                     f"site build: {type(e).__name__}: {str(e)[:300]} with corrupt file(s) {sorted(bad)}")
        finally:
            signal.alarm(0)
            signal.signal(signal.SIGALRM, old)
    rejected = [b for b in bad if b not in reg1]
    accepted = [b for b in bad if b in reg1]
    for b in accepted:
        if case.get("must_reject", {}).get(b):
            res.fail("unbalanced-end-accepted", f"{b} has a surplus {case['must_reject'][b]} but was documented "
                                                f"(diagnostics: {out1[-200:]!r})")
    res.classes += ["rejected"] * len(rejected) + ["accepted"] * len(accepted)
    res.nontrivial = bool(rejected) and len(P) >= 2
    for b in rejected:
        name = b[len("src/"):] if b.startswith("src/") else b        # path below the source directory
        if name not in out1.replace("\n", ""):
            res.fail("rejected-file-not-named", f"{b} was skipped but no diagnostic names it; output: {out1[-300:]!r}")
    if not accepted:
        # absolute oracle (independent of what earlier cases may have left in the process): the call
        # sets of a call-rich P are known by construction
        for path, expect in case.get("P_calls", []):
            got = calls_in_tree(t1, path)
            if got is not None and sorted(set(got)) != sorted(expect):
                res.fail("valid-files-disturbed:calls-vs-construction",
                         f"{'/'.join(path)}: calls {got} but the source invokes {expect} (corrupt files {sorted(bad)})")
        # every valid file must still be registered, with the same tree and the same page identifiers
        lost = [p for p in reg0 if p not in reg1]
        if lost:
            res.fail("valid-file-lost", f"valid files no longer documented: {lost}")
        t1p = {k: v for k, v in t1.items() if k in t0}
        for sig, msg in model.diff(t0, t1p):
            res.fail("valid-files-disturbed:" + sig, f"with {sorted(bad)} read in order {case['order']}: {msg}")
        id1p = {k: v for k, v in id1.items() if k in id0}
        if id1p != id0:
            diffk = [k for k in id0 if id0[k] != id1p.get(k)]
            res.fail("valid-files-disturbed:page-identifiers", f"identifiers changed for {diffk[:5]}: "
                                                                f"{[(id0[k], id1p.get(k)) for k in diffk[:5]]}")
    return res
