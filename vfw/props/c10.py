"""C10 - distinct entities never share a page, anchor or copied file.

Generated: projects in which names are reused across modules / files / directories, differ
only in letter case, contain special characters (operator and assignment interfaces), with
several unnamed units (block data, enums), a submodule named like a module, and equal file
base names in different source directories.  Every entity doc carries a unique tracer.
Oracles: (i) documented-entity -> URL (file + anchor) is injective and every page object's
file is written exactly once; (ii) the page at an entity's URL contains that entity's
tracer; (iii) no two distinct entities share an anchor on one page; (iv) the copy under
src/ of every source file equals the file that defines the entities linking to it.
"""
from __future__ import annotations

import os

from vfw import fordapi, render, site
from vfw.choose import Chooser, from_bytes
from vfw.props.c06 import _var
from vfw.runner import Result

ID = "C10"
LEVEL = "exploration"
TECHNIQUE = ("property-based testing: generated projects with deliberately colliding names; injectivity of "
             "entity -> (file, anchor), tracer on own page, byte comparison of copied sources")
RULE = ("case = generated project with reused / case-variant / operator names; non-trivial iff >=2 entities (or files) "
        "have coinciding lower-cased names; distinct by SHA-1 of the files")
ASSUMPTIONS = ["entity URLs are read from FORD's own objects (get_url), pages and anchors from the written files",
               "gfortran accepts every program behind a reported violation"]
NAMES = ["solve", "Solve", "SOLVE", "norm", "Norm", "state_t", "State_T", "init"]
OPS = ["operator(<)", "operator(/)", "operator(*)", "operator(//)", "operator(.lt.)", "operator(<=)", "operator(==)",
       "operator(/=)", "operator(+)", "operator(>)", "assignment(=)"]
I = {"base": "integer", "kind": None}


def budget(tier):
    if tier == "quick":
        return {"examples": 640, "shrink_cap_s": 60}
    return {"examples": 6400, "shrink_cap_s": 280, "wall_cap_s": 3300}


class B:
    def __init__(self, ch):
        self.ch = ch
        self.n = 0
        self.tr = 0

    def doc(self):
        self.tr += 1
        return [f" zq{self.tr}x0w0"]

    def fresh(self, p):
        self.n += 1
        return f"{p}{self.n}"


def gen_module(b, name, excl):
    ch = b.ch
    m = {"k": "module", "name": name, "uses": [], "default_access": None, "access_pos": "early", "decls": [], "procs": [],
         "doc": b.doc()}
    used = set()
    tname = None
    for _ in range(ch.count(1, 4)):
        nm = ch.choice(NAMES)
        if nm.lower() in used:
            continue
        used.add(nm.lower())
        if nm.lower().endswith("_t"):
            m["decls"].append({"d": "type", "name": nm, "abstract": False, "extends": None, "access": None,
                               "access_how": "attr", "sequence": False, "private_comps": False,
                               "comps": [dict(_var(b.fresh("c")), ents=[{"name": b.fresh("comp"), "dim": None, "init": None,
                                                                          "points": False, "doc": b.doc()}])],
                               "private_binds": False, "binds": [], "finals": [], "doc": b.doc()})
            tname = nm
        else:
            kind = ch.choice(["subroutine", "function"])
            p = {"k": kind, "name": nm, "args": [], "prefix": [], "decls": [], "exec": [], "procs": [], "uses": [],
                 "doc": b.doc()}
            if kind == "function":
                p["rettype"] = dict(I)
                p["exec"] = [f"{nm} = 1"]
            # same-named locals in different procedures end up on the same module page
            v = _var("work")
            v["ents"][0]["doc"] = b.doc()
            p["decls"].append(v)
            if ch.bool(1, 3):
                p["decls"].append({"d": "enum", "items": [[b.fresh("en"), None]], "docs": {}})
            m["procs"].append(p)
    if tname is None and ch.bool(1, 2):
        tname = "local_" + name + "_t"
        m["decls"].append({"d": "type", "name": tname, "abstract": False, "extends": None, "access": None,
                           "access_how": "attr", "sequence": False, "private_comps": False, "comps": [_var(b.fresh("c"))],
                           "private_binds": False, "binds": [], "finals": [], "doc": b.doc()})
    if tname:
        for op in ch.shuffle(OPS)[: ch.count(0, 3)]:
            fn = b.fresh("opimpl")
            T = {"base": "type", "proto": tname}
            if op.startswith("assignment"):
                p = {"k": "subroutine", "name": fn, "args": ["lhs", "rhs"], "prefix": [],
                     "decls": [_var("lhs", T, intent="out"), _var("rhs", I, intent="in")], "exec": [], "procs": [],
                     "uses": [], "doc": b.doc()}
            else:
                p = {"k": "function", "name": fn, "args": ["lhs", "rhs"], "prefix": [], "rettype": {"base": "logical", "kind": None},
                     "decls": [_var("lhs", T, intent="in"), _var("rhs", T, intent="in")], "exec": [f"{fn} = .true."],
                     "procs": [], "uses": [], "doc": b.doc()}
            m["procs"].append(p)
            m["decls"].append({"d": "interface", "form": "generic", "name": op, "modprocs": [fn], "bodies": [],
                               "doc": b.doc(), "access": None})
    if "generic_bodies" not in excl and ch.bool(1, 3):
        # a generic name for external routines: several explicit interface bodies in one generic block
        bodies = []
        for base in ({"base": "real", "kind": None}, {"base": "double precision", "kind": None}, {"base": "complex", "kind": None})[: ch.count(2, 3)]:
            fn = b.fresh("xnrm")
            bodies.append({"k": "function", "name": fn, "args": ["x"], "prefix": [], "rettype": dict(base),
                           "decls": [_var("x", dict(base), intent="in")], "exec": [], "procs": [], "uses": [], "doc": b.doc()})
        m["decls"].append({"d": "interface", "form": "generic", "name": b.fresh("nrm"), "modprocs": [], "bodies": bodies,
                           "doc": b.doc(), "access": None})
    for _ in range(ch.count(0, 2)):
        m["decls"].append({"d": "enum", "items": [[b.fresh("en"), None], [b.fresh("en"), "5"]], "docs": {}})
    v = _var("shared_name")
    v["ents"][0]["doc"] = b.doc()
    m["decls"].append(v)
    return m


def gen_case(ch: Chooser, excl=()):
    excl = set(excl)
    b = B(ch)
    files = []
    feats = set()
    dirs = ["src/a", "src/b"] if ch.bool(2, 3) else ["src"]
    nmods = ch.count(2, 4)
    basenames = []
    for i in range(nmods):
        d = ch.choice(dirs)
        base = ch.choice(["util", "core", "solver"]) if "same_basename" not in excl and ch.bool(1, 3) else f"file{i}"
        if any(x == f"{d}/{base}.f90" for x in basenames):
            base = f"{base}{i}"
        basenames.append(f"{d}/{base}.f90")
        units = [gen_module(b, f"mod{i}", excl)]
        if ch.bool(1, 4):
            units.append({"k": "blockdata", "name": None, "uses": [], "doc": b.doc(), "decls": [
                _var(b.fresh("cb")), {"d": "common", "blocks": [[b.fresh("blk"), []]], "doc": None}]})
            units[-1]["decls"][1]["blocks"][0][1] = [units[-1]["decls"][0]["ents"][0]["name"]]
            feats.add("unnamed-blockdata")
        files.append({"path": f"{d}/{base}.f90", "form": "free", "units": units, "doc": None})
    # an external procedure named like a module procedure, in its own file
    if ch.bool(1, 2):
        nm = ch.choice([n for n in NAMES if not n.lower().endswith("_t")])
        files.append({"path": f"{dirs[-1]}/ext.f90", "form": "free", "units": [
            {"k": "subroutine", "name": nm, "args": [], "prefix": [], "decls": [], "exec": [], "procs": [], "uses": [],
             "doc": b.doc()}], "doc": None})
        feats.add("external-namesake")
    # a submodule named like a module
    if ch.bool(1, 3) and "submodule_namesake" not in excl:
        host = files[0]["units"][0]
        host["decls"].append({"d": "interface", "form": "explicit", "doc": None, "bodies": [
            {"k": "subroutine", "name": "deferred_work", "args": [], "prefix": ["module"], "decls": [], "doc": b.doc()}]})
        target = f"mod{1 + ch.int(nmods - 1)}"       # (gfortran rejects a submodule named like its own ancestor)
        files.append({"path": f"{dirs[0]}/sub.f90", "form": "free", "units": [
            {"k": "submodule", "name": target, "ancestor": host["name"], "parent": None, "uses": [], "decls": [],
             "procs": [{"k": "subroutine", "name": "deferred_work", "args": [], "prefix": ["module"], "decls": [],
                        "exec": [], "procs": [], "uses": [], "doc": b.doc()}], "doc": b.doc()}], "doc": None})
        feats.add("submodule-named-like-module")
    proj = {"files": files}
    text, used = render.render_project(proj, Chooser(b""), features={"comments": False, "continuations": False})
    # renderer with the default chooser keeps the letter case of names as generated
    names = []
    for f in files:
        names.append(os.path.basename(f["path"]).lower())
    lowered = {}
    for f in files:
        for u in f["units"]:
            for p in u.get("procs", []):
                lowered.setdefault(("proc", p["name"].lower()), set()).add((u["name"], p["name"]))
            for d in u.get("decls", []):
                if d["d"] in ("type", "interface") and d.get("name"):
                    lowered.setdefault((d["d"], d["name"].lower()), set()).add((u["name"], d["name"]))
            if u["k"] in ("subroutine", "function"):
                lowered.setdefault(("proc", u["name"].lower()), set()).add(("", u["name"]))
    nontrivial = any(len(v) >= 2 for v in lowered.values()) or len(set(names)) < len(names)
    if len(set(names)) < len(names):
        feats.add("same-basename")
    if any(len(v) >= 2 and len({x[1] for x in v}) >= 2 for v in lowered.values()):
        feats.add("case-variants")
    if any(len(v) >= 2 for v in lowered.values()):
        feats.add("same-name-twice")
    options = {"project": "P", "src_dir": dirs, "output_dir": "./doc", "preprocess": False, "parallel": 0,
               "display": ["public", "private", "protected"], "proc_internals": True, "search": False}
    text["project.md"] = site.project_file(options, "body\n")
    return {"files": text, "options": options, "classes": sorted(feats), "nontrivial": bool(nontrivial),
            "ntracers": b.tr}


def strategy(tier, excl):
    excl = tuple(excl)
    return from_bytes(lambda ch: gen_case(ch, excl), min_size=200, max_size=1500)


def walk(entity, seen):
    if id(entity) in seen or isinstance(entity, str):
        return
    seen[id(entity)] = entity
    try:
        kids = list(entity.children)
    except Exception:
        kids = []
    for c in kids:
        if hasattr(c, "obj"):
            walk(c, seen)


def check(case) -> Result:
    import ford.sourceform as sf
    from vfw.model import TRACER
    res = Result(nontrivial=case.get("nontrivial", False), classes=list(case.get("classes", [])))
    res.sample = {"files": {k: v for k, v in case["files"].items() if k.endswith(".f90")}}
    try:
        with fordapi.Sandbox(case["files"], prefix="vfw-c10-") as root:
            data, out = site.build_site(root)
            docs = site.CAPTURED.get("docs")
            outdir = root / "doc"
            idx = site.SiteIndex(outdir)
            project = docs.project
            # (i) page objects -> files
            outfiles = {}
            for page in list(docs.docs) + list(docs.lists):
                rel = os.path.relpath(page.outfile, outdir)
                outfiles.setdefault(rel, []).append(page)
            for rel, pages in outfiles.items():
                if len(pages) > 1:
                    who = [f"{getattr(p.obj, 'obj', '?')} {getattr(p.obj, 'name', '?')}" for p in pages if hasattr(p, "obj")]
                    kinds = sorted({rel.split("/")[0]})
                    res.fail(f"page-shared:{kinds[0]}", f"{len(pages)} pages written to {rel}: {who}")
                if rel not in idx.files:
                    res.fail("page-not-written", f"{rel} missing from the output")
            # (ii)+(iii) entity -> URL injective; tracer on own page
            seen = {}
            for f in project.files:
                walk(f, seen)
            by_url = {}
            for e in seen.values():
                try:
                    url = e.get_url()
                except Exception:
                    url = None
                if url is None or isinstance(e, sf.FortranSourceFile):
                    continue
                if isinstance(e, sf.FortranProcedure) and isinstance(getattr(e, "parent", None), sf.FortranInterface) \
                        and not getattr(e.parent, "generic", False):
                    continue        # the one procedure of a non-generic interface block is documented through the
                    #                 interface object (same page by design); bodies of a generic block are entities
                by_url.setdefault(url, []).append(e)
                tracers = TRACER.findall(" ".join(getattr(e, "doc_list", []) or []))
                if tracers:
                    page = url.split("#")[0]
                    pg = idx.pages.get(page)
                    if pg is None:
                        res.fail(f"entity-page-missing:{e.obj}", f"{e.obj} {e.name}: URL {url} but {page} was not written")
                    elif tracers[0] not in pg.text:
                        res.fail(f"tracer-not-on-own-page:{e.obj}",
                                 f"{e.obj} {e.name} (doc {tracers[0]}) is not described on {page}")
                    if "#" in url:
                        anchor = url.split("#", 1)[1]
                        from urllib.parse import unquote
                        if pg is not None and anchor not in pg.ids and unquote(anchor) not in pg.ids:
                            pass      # C09's business
            for url, ents in by_url.items():
                distinct = {id(e) for e in ents}
                if len(distinct) > 1:
                    kinds = sorted({e.obj for e in ents})
                    where = "anchor" if "#" in url else "page"
                    res.fail(f"{where}-shared:{'+'.join(kinds)}",
                             f"{len(distinct)} distinct entities share {url}: "
                             f"{[(e.obj, e.name, getattr(e.parent, 'name', None)) for e in ents]}")
            # (iv) copied sources
            for f in project.files:
                copy = outdir / "src" / f.name
                if not copy.exists():
                    res.fail("source-copy-missing", f"src/{f.name} not written")
                elif copy.read_bytes() != open(f.path, "rb").read():
                    res.fail("source-copy-wrong-file", f"src/{f.name} is not the content of {os.path.relpath(f.path, root)}")
    except SystemExit as e:
        res.fail("HARNESS:ford-exited", str(e))
    except Exception as e:
        res.fail("build:" + fordapi.exception_signature(e), f"{type(e).__name__}: {str(e)[:300]}")
    if res.failures and not all(f.signature.startswith("HARNESS") for f in res.failures):
        ok, err = fordapi.gfortran_check({k: v for k, v in case["files"].items() if k.endswith(".f90")})
        if not ok:
            res.failures = []
            res.fail("HARNESS:gfortran-rejects-generated-program", err[-600:])
    return res
