"""C15 - options mean the same in every configuration format, with CLI precedence.

The option schema is read from dataclasses.fields(ProjectSettings) at run time.  For random
subsets of options with representative and boundary values of each type, the same
configuration is written as Markdown metadata, as the [extra.ford] table of fpm.toml and as
a --config string, loaded with ford.load_settings + ford.parse_arguments from different
working directories, with and without command-line values.
Oracles: the three effective configurations are equal; a command-line value wins over the
file value, which wins over the default; path options are project_dir/value whatever the
cwd; an unknown key is reported (its name appears in the output) without aborting; an
ill-typed value is rejected with a message naming the option.
"""
from __future__ import annotations

import contextlib
import dataclasses
import io
import os
import typing
from pathlib import Path

from vfw import fordapi
import ford.settings as _fs      # noqa: F401  (imported here, not while a case is being generated)
from vfw.choose import Chooser, from_bytes
from vfw.runner import Result

ID = "C15"
LEVEL = "exploration"
TECHNIQUE = ("property-based testing: differential between three configuration front ends over the run-time option schema; "
             "reference = declared defaults / file value / CLI value precedence")
RULE = ("case = option subset with values + optional CLI overrides + optional unknown / ill-typed entry; non-trivial iff >=3 "
        "options of >=2 distinct types; distinct by SHA-1 of the rendered configuration")
ASSUMPTIONS = [
    "values are restricted to those expressible in all three syntaxes (no newlines, no leading/trailing blanks, no `{!`, no `;`)",
    "`extensions` is compared as a set (FORD unions it with fpp_extensions)",
    "preprocess stays false (the preprocessor self-test is not part of the configuration semantics)",
]
SKIP = {"relative", "directory", "creation_date", "preprocess", "preprocessor", "parallel"}
STRS = ["plain", "two words", "with: colon", "a = b", "x=y", "UPPER lower", "trailing#hash", "quote's", 'say "hi"',
        "100%", "back\\slash", "<b>html</b>", "[[link]]", "a, b", "end"]
PATHS = ["./sub", "sub/dir", "../up", "./a/../b", "deep/er/path", "name with blank"]
CLI_KEYS = ["src_dir", "page_dir", "output_dir", "css", "revision", "exclude", "exclude_dir", "extensions", "macro", "warn",
            "force", "graph", "search", "quiet", "dbg", "include", "externalize"]


def budget(tier):
    if tier == "quick":
        return {"examples": 6400, "shrink_cap_s": 40}
    return {"examples": 100000, "shrink_cap_s": 200, "wall_cap_s": 3000}


def schema():
    import ford.settings as fs
    hints = typing.get_type_hints(fs.ProjectSettings)
    out = {}
    for f in dataclasses.fields(fs.ProjectSettings):
        if f.name in SKIP or not f.init:
            continue
        t = hints[f.name]
        origin, args = typing.get_origin(t), typing.get_args(t)
        if t is bool:
            k = "bool"
        elif t is int:
            k = "int"
        elif t is str or (origin is typing.Union and str in args):
            k = "str"
        elif t is Path or (origin is typing.Union and Path in args):
            k = "path"
        elif origin is list and args == (str,):
            k = "liststr"
        elif origin is list and args == (Path,):
            k = "listpath"
        elif origin is dict and args == (str, str):
            k = "dict"
        elif origin is dict:
            k = "filetypes"
        elif t is list:
            k = "liststr"
        else:
            continue
        out[f.name] = k
    return out


def gen_value(ch, name, kind):
    if kind == "bool":
        return ch.bool()
    if kind == "int":
        return ch.choice([0, 1, 2, 7, 1000, 123456789])
    if kind == "str":
        if name in ("docmark_alt", "predocmark_alt") and ch.bool(1, 3):
            return ""           # switched off: a blank value is a value
        if name in ("docmark", "predocmark", "docmark_alt", "predocmark_alt"):
            return {"docmark": ["!", "<", "d"], "predocmark": [">", "p", "^"], "docmark_alt": ["*", "#", "D"],
                    "predocmark_alt": ["|", "P", "~"]}[name][ch.int(3)]
        if name == "sort":
            return ch.choice(["src", "alpha", "permission", "permission-alpha", "type", "type-alpha"])
        if name == "encoding":
            return ch.choice(["utf-8", "latin-1"])
        return ch.choice(STRS)
    if kind == "path":
        if name == "favicon":
            # (the built-in default is spelled favicon.png too: a project's own file of that name is still the project's)
            return ch.choice(["favicon.png", "./favicon.png", "images/icon.png", "../shared/icon.png"])
        return ch.choice(PATHS)
    if kind == "liststr":
        if name == "display":
            return ch.choice([["public"], ["public", "private"], ["Private", "PROTECTED"], ["none"]])
        if name in ("extensions", "fixed_extensions", "fpp_extensions"):
            return {"extensions": [["f90"], ["f90", "f03", "fpp"], ["F08"]], "fixed_extensions": [["f"], ["for", "ftn"], ["f77"]],
                    "fpp_extensions": [["F90"], ["F", "FOR"], ["fpp"]]}[name][ch.int(3)]
        n = ch.weighted([(2, 1), (2, 2), (1, 3)])
        return [ch.choice(STRS[:8]) for _ in range(n)]
    if kind == "listpath":
        return [ch.choice(PATHS) for _ in range(ch.count(1, 3))]
    if kind == "dict":
        ks = ch.shuffle(["alpha", "beta_2", "gamma"])[: ch.count(1, 3)]
        if name == "extra_mods":
            return {k: ch.choice(["https://example.com/" + k, "http://host/x?y=1", "doc/" + k]) for k in ks}
        if name == "external":
            return {k: ch.choice(["https://example.com/" + k, "../other/" + k]) for k in ks}
        return {k: ch.choice(["replacement text", "x = y", "url: http://a", "plain"]) for k in ks}
    if kind == "filetypes":
        out = []
        for ext in ch.shuffle(["sh", "py", "cpp"])[: ch.count(1, 2)]:
            e = {"extension": ext, "comment": {"sh": "#", "py": "#", "cpp": "//"}[ext]}
            if ch.bool():
                e["lexer"] = {"sh": "BashLexer", "py": "PythonLexer", "cpp": "CppLexer"}[ext]
            out.append(e)
        return out
    raise AssertionError(kind)


# ----------------------------------------------------------------------------- the three front ends
def toml_str(s):
    if "'" not in s and "\n" not in s:
        return "'" + s + "'"
    return '"' + s.replace("\\", "\\\\").replace('"', '\\"') + '"'


def toml_value(kind, v):
    if kind == "bool":
        return "true" if v else "false"
    if kind == "int":
        return str(v)
    if kind in ("str", "path"):
        return toml_str(v)
    if kind in ("liststr", "listpath"):
        return "[" + ", ".join(toml_str(x) for x in v) + "]"
    if kind == "dict":
        return "{" + ", ".join(f"{k} = {toml_str(x)}" for k, x in v.items()) + "}"
    if kind == "filetypes":
        return "[" + ", ".join("{" + ", ".join(f"{k} = {toml_str(x)}" for k, x in e.items()) + "}" for e in v) + "]"


MD_OWN_LINE = [False]     # set per case: the key stands on a line of its own, the value(s) on indented lines below


def md_lines(name, kind, v):
    if MD_OWN_LINE[0] and v != [] and v != {} and kind in ("int", "liststr", "listpath", "dict", "filetypes"):
        MD_OWN_LINE[0] = False
        try:
            first = md_lines(name, kind, v)
        finally:
            MD_OWN_LINE[0] = True
        head, val = first[0].split(":", 1)
        return [head + ":", "    " + val.strip()] + first[1:]
    if kind == "bool":
        return [f"{name}: {'true' if v else 'false'}"]
    if kind in ("int", "str", "path"):
        return [f"{name}: {v}"]
    if kind in ("liststr", "listpath"):
        return [f"{name}: {v[0]}"] + [f"    {x}" for x in v[1:]]
    if kind == "dict":
        import ford.settings as fs
        sep = fs.OPTION_SEPARATORS[name]
        items = [f"{k} {sep} {x}" if sep == "=" else f"{k}{sep} {x}" for k, x in v.items()]
        return [f"{name}: {items[0]}"] + [f"    {x}" for x in items[1:]]
    if kind == "filetypes":
        items = [" ".join([e["extension"], e["comment"]] + ([e["lexer"]] if "lexer" in e else [])) for e in v]
        return [f"{name}: {items[0]}"] + [f"    {x}" for x in items[1:]]


def render(fmt, options, kinds, extra_lines=(), override=None):
    """-> (files, cli dict)"""
    body = "Project body.\n"
    if fmt == "md":
        lines = ["---", "preprocess: false"]
        for k, v in options.items():
            lines += md_lines(k, kinds[k], v)
        lines += [l for l in extra_lines]
        lines += ["---", "", body]
        return {"project.md": "\n".join(lines)}, {}
    if fmt == "toml":
        lines = ["[extra.ford]", "preprocess = false"]
        for k, v in options.items():
            lines.append(f"{k} = {toml_value(kinds[k], v)}")
        lines += list(extra_lines)
        return {"project.md": body, "fpm.toml": "\n".join(lines) + "\n"}, {}
    if fmt in ("md+config", "toml+config"):
        # half of the options in the file, the other half through --config
        keys = list(options)
        in_file = {k: options[k] for k in keys[0::2]}
        files, _ = render(fmt.split("+")[0], in_file, kinds, extra_lines)
        parts = [f"{k} = {toml_value(kinds[k], options[k])}" for k in keys[1::2]]
        return files, ({"config": ";".join(parts)} if parts else {})
    if fmt in ("md>config", "toml>config"):
        # the file gives another value for one option; --config gives the value meant
        ov = override or {}
        in_file = dict(options)
        if ov.get("key") in in_file:
            in_file[ov["key"]] = ov["file_value"]
        files, _ = render(fmt.split(">")[0], in_file, kinds, extra_lines)
        parts = [f"{k} = {toml_value(kinds[k], options[k])}" for k in options if k == ov.get("key")]
        return files, ({"config": ";".join(parts)} if parts else {})
    parts = ["preprocess = false"] + [f"{k} = {toml_value(kinds[k], v)}" for k, v in options.items()] + list(extra_lines)
    return {"project.md": body}, {"config": ";".join(parts)}


FLAGS = {"src_dir": ("-d", "list"), "page_dir": ("-p", "one"), "output_dir": ("-o", "one"), "css": ("-s", "one"),
         "revision": ("-r", "one"), "exclude": ("--exclude", "list"), "exclude_dir": ("--exclude_dir", "list"),
         "extensions": ("-e", "list"), "macro": ("-m", "list"), "warn": ("-w", "flag"), "force": ("-f", "flag"),
         "graph": ("-g", "flag"), "search": ("--no-search", "flag"), "quiet": ("-q", "flag"), "dbg": ("--debug", "flag"),
         "include": ("-I", "list"), "externalize": ("--externalize", "flag"), "config": ("--config", "one")}


def argv_of(cli):
    """The command line that expresses the given values (None if one of them has no flag)."""
    out = []
    for k, v in cli.items():
        if k not in FLAGS:
            return None
        flag, how = FLAGS[k]
        if how == "flag":
            if v != (k != "search"):
                return None          # a flag can only say one thing
            out.append(flag)
        elif how == "list":
            for x in (v if isinstance(v, list) else [v]):
                out += [flag, str(x)]
        else:
            out += [flag, str(v)]
    return out


def load(files, cli, cwd_choice):
    """Run load_settings + parse_arguments in a fresh sandbox.  -> (settings dict | exception, output)"""
    import ford
    buf = io.StringIO()
    old = os.getcwd()
    with fordapi.Sandbox({("proj/" + k): v for k, v in files.items()}, prefix="vfw-c15-") as root:
        pdir = root / "proj"
        (root / "elsewhere").mkdir()
        os.chdir({"proj": pdir, "root": root, "else": root / "elsewhere"}[cwd_choice])
        try:
            with contextlib.redirect_stdout(buf), contextlib.redirect_stderr(buf):
                argv = argv_of(cli)
                if argv is not None:
                    # the real front end: argparse + initialize(), as `ford <options> path/to/project.md`
                    import sys
                    old_argv = sys.argv
                    sys.argv = ["ford"] + argv + [os.path.relpath(pdir / "project.md")]
                    try:
                        data, docs = ford.initialize()
                    finally:
                        sys.argv = old_argv
                else:
                    text = (pdir / "project.md").read_text()
                    docs, data = ford.load_settings(text, pdir, "project.md")
                    data, docs = ford.parse_arguments(dict(cli), docs, data, pdir)
            d = dataclasses.asdict(data)
        except BaseException as e:      # SystemExit included
            return e, buf.getvalue(), str(pdir)
        finally:
            os.chdir(old)
        return d, buf.getvalue(), str(pdir)


def canon(d, pdir):
    d = dict(d)
    d.pop("creation_date", None)
    for k in ("extensions",):
        if isinstance(d.get(k), list):
            d[k] = sorted(d[k])

    root = os.path.dirname(pdir)

    def fix(v):
        if isinstance(v, Path):
            s = str(v)
            return "<root>" + s[len(root):] if s.startswith(root) else s
        if isinstance(v, str) and v.startswith(root):
            return "<root>" + v[len(root):]
        if isinstance(v, list):
            return [fix(x) for x in v]
        if isinstance(v, dict):
            return {k: fix(x) for k, x in v.items()}
        return v
    return {k: fix(v) for k, v in d.items()}


def gen_case(ch: Chooser, excl=()):
    kinds = schema()
    names = sorted(kinds)
    chosen = ch.shuffle(names)[: ch.count(1, 8)]
    if ch.bool(1, 10):
        chosen = list(dict.fromkeys(chosen + ["favicon"]))
    if ch.bool(1, 10):
        chosen = list(dict.fromkeys(chosen + [ch.choice(["docmark_alt", "predocmark_alt"])]))
    if ch.bool(1, 8):
        chosen = list(dict.fromkeys(chosen + ["exclude_dir", "output_dir"]))     # (derived: output_dir is appended to exclude_dir)
    options = {}
    for n in chosen:
        options[n] = gen_value(ch, n, kinds[n])
    # keep the option set self-consistent (FORD validates these on purpose)
    if "fixed_extensions" in options and "extensions" in options:
        options["fixed_extensions"] = [x for x in options["fixed_extensions"] if x not in options["extensions"]] or ["fxd"]
    if "extra_mods" in options and "external" in options:
        options["external"] = {k + "_x": v for k, v in options["external"].items()}
    if "src_dir" in options and "output_dir" in options:
        options["output_dir"] = "./outdir"
    cli = {}
    if ch.bool(1, 3):
        for key in ch.shuffle([k for k in CLI_KEYS if k in kinds])[: ch.count(1, 2)]:
            v = gen_value(ch, key, kinds[key])
            if kinds[key] == "bool":
                v = {"search": False}.get(key, True)      # what the flag can express
            cli[key] = v
    special = ch.weighted([(6, None), (1, "unknown"), (1, "illtyped")])
    spec = None
    if special == "unknown":
        spec = {"kind": "unknown", "key": ch.choice(["not_an_option", "projectt", "grpah"]), "value": "x"}
    elif special == "illtyped":
        cands = [n for n in names if kinds[n] in ("bool", "int", "dict")]
        key = ch.choice(cands)
        bad = {"bool": ch.choice(["maybe", "2", "yes please"]), "int": ch.choice(["many", "1.5x", "ten"]),
               "dict": "no separator here"}[kinds[key]]
        options.pop(key, None)
        spec = {"kind": "illtyped", "key": key, "value": bad, "vkind": kinds[key]}
    cwd = ch.choice(["proj", "root", "else"])
    # (FORD refuses a source directory inside the output directory: not what this check is about)
    eff_src = cli.get("src_dir", options.get("src_dir"))
    eff_out = cli.get("output_dir", options.get("output_dir"))
    if eff_src is not None and eff_out is not None:
        cli.pop("output_dir", None)
        options["output_dir"] = "./outdir"
        if "output_dir" not in options:
            pass
    formats = ["md", "toml"] + ([] if "config_format" in excl else ["config"])
    override = None
    if "config_format" not in excl and options and spec is None:
        base = ch.choice(["md", "toml"])
        formats.append(base + "+config")
        key = ch.choice(sorted(options))
        if "exclude_dir" in options and "output_dir" in options and ch.bool(2, 3):
            key = "output_dir"          # (the output directory is also appended to exclude_dir)
        alt = gen_value(ch, key, kinds[key])
        if key == "output_dir":
            alt = "./altout"
        if key == "fixed_extensions" and "extensions" in options:
            alt = [x for x in alt if x not in options["extensions"]] or ["fxd"]
        if key == "extensions" and "fixed_extensions" in options:
            alt = [x for x in alt if x not in options["fixed_extensions"]] or ["f95"]
        if key in ("extra_mods", "external") and "extra_mods" in options and "external" in options:
            alt = options[key]          # (FORD rejects a name present in both tables)
        override = {"key": key, "file_value": alt}
        formats.append(base + ">config")
    flag_key = None
    cands = sorted(k for k in options if k in FLAGS and FLAGS[k][1] in ("one", "list") and k not in cli)
    if spec is None and cands and "flag_format" not in excl and ch.bool(1, 2):
        flag_key = ch.choice(cands)
        if "output_dir" in cands and "exclude_dir" in options and ch.bool(1, 2):
            flag_key = "output_dir"
        formats.append("md+flag")
    tkinds = sorted({kinds[n] for n in options})
    own_line = "md_own_line" not in excl and ch.bool(1, 4)
    return {"options": options, "cli": cli, "special": spec, "cwd": cwd, "formats": formats, "override": override,
            "md_own_line": own_line, "flag_key": flag_key,
            "classes": ["kind:" + k for k in tkinds] + (["special:" + spec["kind"]] if spec else []) + (["cli"] if cli else []) +
                       (["md:key-on-own-line"] if own_line else []),
            "nontrivial": len(options) >= 3 and len(tkinds) >= 2}


def strategy(tier, excl):
    excl = tuple(excl)
    return from_bytes(lambda ch: gen_case(ch, excl), min_size=64, max_size=400)


def check(case) -> Result:
    res = Result(nontrivial=case.get("nontrivial", False), classes=list(case.get("classes", [])))
    kinds = schema()
    options, cli, spec = case["options"], case["cli"], case["special"]
    res.sample = {"options": options, "cli": cli, "special": spec, "cwd": case["cwd"]}
    results = {}
    MD_OWN_LINE[0] = bool(case.get("md_own_line"))
    for fmt in case.get("formats", ("md", "toml", "config")):
        extra = []
        if spec:
            if fmt == "md":
                extra = [f"{spec['key']}: {spec['value']}"]
            else:
                extra = [f"{spec['key']} = {toml_str(spec['value'])}"]
        if fmt == "md+flag":
            # one option leaves the file and is given by its command-line flag instead: same effective settings
            key = case["flag_key"]
            files, c = render("md", {k: v for k, v in options.items() if k != key}, kinds, extra)
            c = dict(c)
            c[key] = options[key]
        else:
            files, c = render(fmt, options, kinds, extra, case.get("override"))
        c.update(cli)
        out = load(files, c, case["cwd"])
        results[fmt] = out
    res.evaluations = len(results)
    if spec and spec["kind"] == "unknown":
        for fmt, (d, out, pdir) in results.items():
            if isinstance(d, BaseException):
                res.fail(f"unknown-key-aborts:{fmt}", f"{fmt}: unknown key {spec['key']!r} aborted the run: {type(d).__name__}: {str(d)[:200]}")
            elif spec["key"] not in out:
                res.fail(f"unknown-key-not-reported:{fmt}", f"{fmt}: unknown key {spec['key']!r} was silently accepted")
        return res
    if spec and spec["kind"] == "illtyped":
        for fmt, (d, out, pdir) in results.items():
            if not isinstance(d, BaseException):
                res.fail(f"ill-typed-accepted:{fmt}:{spec['vkind']}", f"{fmt}: {spec['key']} = {spec['value']!r} was accepted "
                                                                      f"(effective value {d.get(spec['key'])!r})")
            elif spec["key"] not in str(d):
                res.fail(f"ill-typed-message-lacks-option:{fmt}:{spec['vkind']}",
                         f"{fmt}: {spec['key']} = {spec['value']!r} rejected with {type(d).__name__}: {str(d)[:200]!r}, "
                         f"which does not name the option")
        return res
    eff = {}
    for fmt, (d, out, pdir) in results.items():
        if isinstance(d, BaseException):
            res.fail(f"valid-configuration-rejected:{fmt}", f"{fmt}: {type(d).__name__}: {str(d)[:300]}")
        else:
            eff[fmt] = canon(d, pdir)
    fmts = sorted(eff)
    for i in range(len(fmts)):
        for j in range(i + 1, len(fmts)):
            a, b = eff[fmts[i]], eff[fmts[j]]
            for k in sorted(set(a) | set(b)):
                if a.get(k) != b.get(k):
                    res.fail(f"formats-disagree:{fmts[i]}-vs-{fmts[j]}:{kinds.get(k, k)}",
                             f"option {k}: {fmts[i]} gives {a.get(k)!r}, {fmts[j]} gives {b.get(k)!r}")
    # precedence and path anchoring, against the declared semantics
    for fmt, e in eff.items():
        for k, v in cli.items():
            want = v
            anchor = lambda x: os.path.normpath(os.path.join("<root>/proj", x))
            if kinds[k] in ("path",):
                want = anchor(v)
            elif kinds[k] == "listpath":
                want = [anchor(x) for x in v]
            got = e.get(k)
            if kinds[k] == "liststr" and k == "extensions":
                continue
            if kinds[k] in ("path", "listpath"):
                if k == "exclude_dir" and isinstance(got, list):
                    got = got[: len(want)]          # FORD appends the output directory
                if got != want:
                    res.fail(f"cli-not-winning:{fmt}:{kinds[k]}", f"{fmt}: command line {k}={v!r} but effective {got!r}")
            elif kinds[k] == "liststr" and k == "display":
                if got != [x.lower() for x in want]:
                    res.fail(f"cli-not-winning:{fmt}:{kinds[k]}", f"{fmt}: command line {k}={v!r} but effective {got!r}")
            elif kinds[k] == "liststr" and k == "exclude":
                pass        # exclude entries are rewritten to globs during the run
            elif got != want and not (kinds[k] == "dict"):
                res.fail(f"cli-not-winning:{fmt}:{kinds[k]}", f"{fmt}: command line {k}={v!r} but effective {got!r}")
        for k, v in options.items():
            if k in cli:
                continue
            if kinds[k] == "path":
                want = os.path.normpath(os.path.join("<root>/proj", v))
                if e.get(k) != want:
                    res.fail(f"path-not-relative-to-project:{fmt}", f"{fmt}: {k}={v!r} (cwd {case['cwd']}) gives {e.get(k)!r}, "
                                                                    f"expected {want!r}")
            elif kinds[k] in ("bool", "int") and e.get(k) != v:
                # a value given in the file (or through --config) and not on the command line is the effective value
                res.fail(f"file-value-lost:{fmt}:{kinds[k]}", f"{fmt}: {k}={v!r} in the configuration, not on the command line, "
                                                              f"but effective {e.get(k)!r}")
    return res
