"""C07 - cross-references resolve to the entity Fortran scoping designates.

Generated: programs in which a small pool of names is deliberately *reused* - at module
level in several modules, as local types and internal procedures that shadow host entities,
through USE inside nested scopes, in sibling scopes - plus names that are visible nowhere
(decoys supplied by stub modules outside the project).  Every reference kind the property
lists is produced: variable type, parent type, procedure-pointer / deferred-binding
interface, binding and finaliser target, generic's specific, structure constructor,
submodule parent, separate module procedure interface.  Oracle: vfw.refsem.resolve.
"""
from __future__ import annotations

from vfw import fordapi, refsem, render
from vfw.choose import Chooser, from_bytes
from vfw.props import c06
from vfw.props.c06 import _var, stub_source
from vfw.runner import Result

ID = "C07"
LEVEL = "exploration"
TECHNIQUE = ("property-based testing: generated programs with deliberately reused names, differential against an "
             "independent scoping resolver; stub modules make never-declared names legal")
RULE = ("case = generated project whose scopes reuse names from a small pool; non-trivial iff some checked reference's name "
        "has >=2 declarations in the project, or is unresolved while a same-named entity exists elsewhere (decoy); "
        "distinct by SHA-1 of the files")
ASSUMPTIONS = [
    "vfw.refsem implements host association, USE association and local shadowing per F2008 16.5.1.4 / 11.2.2",
    "gfortran accepts every program (with its stubs) behind a reported violation",
]
FORD_OPTS = c06.FORD_OPTS
TYPES = ["alpha", "gamma"]
PROCS = ["beta", "delta"]
ABSI = ["iota"]
I = {"base": "integer", "kind": None}


def budget(tier):
    if tier == "quick":
        return {"examples": 6400, "orders": 2, "shrink_cap_s": 40}
    return {"examples": 64000, "orders": 6, "shrink_cap_s": 240, "wall_cap_s": 3000}


class B:
    def __init__(self, ch, excl=()):
        self.ch = ch
        self.excl = set(excl)
        self.n = 0
        self.files = []
        self.refs = []
        self.stubs = []
        self.gate_extra = {}
        self.feats = set()
        self.scopes = []       # (node, path, is_exec, is_module_spec)

    def fresh(self, p):
        self.n += 1
        return f"{p}{self.n}"

    def mktype(self, name):
        return {"d": "type", "name": name, "abstract": False, "extends": None, "access": None, "access_how": "attr",
                "sequence": False, "private_comps": False, "comps": [_var(self.fresh("c"))], "private_binds": False,
                "binds": [], "finals": [], "doc": None}

    def mksub(self, name, **kw):
        d = {"k": "subroutine", "name": name, "args": [], "prefix": [], "decls": [], "exec": [], "procs": [], "uses": [],
             "doc": None}
        d.update(kw)
        return d

    def local_decls(self, scope, taken, allow_procs=True):
        """Declare some pool names locally (shadowing whatever the host has)."""
        ch = self.ch
        for t in TYPES:
            if t not in taken and ch.bool(1, 4):
                scope["decls"].append(self.mktype(t))
                taken.add(t)
                self.feats.add("local-type-shadows")
        if allow_procs and scope.get("k") == "subroutine" and "dummy_proc_shadows" not in self.excl:
            # a dummy procedure (declared by an interface body) named like an abstract interface of the pools:
            # inside the procedure `procedure(name)` means the dummy
            for a in ABSI:
                if a not in taken and ch.bool(1, 5):
                    scope["args"].append(a)
                    scope["decls"].append({"d": "interface", "form": "explicit", "doc": None, "bodies": [
                        {"k": "subroutine", "name": a, "args": [], "prefix": [], "decls": [], "doc": None}]})
                    taken.add(a)
                    self.feats.add("dummy-proc-shadows-absint")
        if allow_procs:
            for p in PROCS:
                if p not in taken and ch.bool(1, 5):
                    scope["procs"].append(self.mksub(p))
                    taken.add(p)
                    self.feats.add("internal-proc-shadows")

    def use_only(self, scope, modules, taken, sem):
        """USE some modules with ONLY lists of pool names not yet meaningful in this scope."""
        ch = self.ch
        for mname in ch.shuffle(modules)[: ch.count(0, 2)]:
            X = sem.exports(mname)
            # (one entity is never imported under two names in one list: legal, but out of scope)
            names = sorted(set(n for cls in X for n in X[cls] if n in TYPES + PROCS + ABSI))
            only = []
            for n in names:
                if n in taken:
                    if ch.bool(1, 4):
                        loc = self.fresh("ren")
                        only.append([loc, n])
                        self.feats.add("use-rename-to-avoid-clash")
                    continue
                if ch.bool(2, 3):
                    only.append([n, None])
                    taken.add(n)
            if only:
                scope["uses"].append({"module": mname, "only": only, "renames": [], "nature": None})


def gen_case(ch: Chooser, excl=()):
    b = B(ch, excl)
    nm = ch.count(2, 3)
    modnames = ["moda", "modb", "modc"][:nm]
    mods = []
    # pass 1: module-level declarations
    for mn in modnames:
        m = {"k": "module", "name": mn, "uses": [], "default_access": None, "access_pos": "early", "decls": [], "procs": [],
             "private_names": [], "doc": None}
        for t in TYPES:
            if ch.bool(1, 2):
                m["decls"].append(b.mktype(t))
        for p in PROCS:
            if ch.bool(1, 2):
                m["procs"].append(b.mksub(p))
        for a in ABSI:
            if ch.bool(1, 2):
                m["decls"].append({"d": "interface", "form": "abstract", "doc": None, "bodies": [
                    {"k": "subroutine", "name": a, "args": [], "prefix": [], "decls": [], "doc": None}]})
        # a finaliser called `omega` in several modules, each for its own type
        if ch.bool(1, 3):
            tf = b.mktype(f"tf_{mn}")
            tf["finals"] = ["omega"]
            m["decls"].append(tf)
            arg = b.fresh("x")
            m["procs"].append(b.mksub("omega", args=[arg], decls=[_var(arg, {"base": "type", "proto": tf["name"]}, intent="inout")]))
            b.refs.append({"scope": [mn], "ifbody": None, "slot": "final", "at": f"{tf['name']}%omega", "name": "omega",
                           "expect": f"{mn}/omega", "multi": True, "fixed": True})
            b.feats.add("final")
        # a generic binding inherited by a child type that overrides the specific binding: each type's generic
        # resolves to that type's own binding
        if ch.bool(1, 3) and "generic_binding_inherit" not in b.excl:
            tp, tc = b.mktype(f"gpar_{mn}"), b.mktype(f"gchi_{mn}")
            tc["extends"] = tp["name"]
            sp, sc = f"gpar_area_{mn}", f"gchi_area_{mn}"
            tp["binds"] = [{"name": "garea", "target": sp, "generic": False, "deferred": False, "iface": None, "attrs": [],
                            "access": None, "doc": None},
                           {"generic": True, "name": "gmeasure", "targets": ["garea"], "access": None, "doc": None}]
            tc["binds"] = [{"name": "garea", "target": sc, "generic": False, "deferred": False, "iface": None, "attrs": [],
                            "access": None, "doc": None}]
            m["decls"] += [tp, tc]
            for sub, ty in ((sp, tp), (sc, tc)):
                arg = "gself"          # (an overriding procedure must name its dummy arguments like the overridden one)
                m["procs"].append(b.mksub(sub, args=[arg], decls=[_var(arg, {"base": "class", "proto": ty["name"]}, intent="in")]))
            b.refs.append({"scope": [mn], "ifbody": None, "slot": "gbinding", "at": f"{tp['name']}%gmeasure%garea", "name": "garea",
                           "expect": f"{mn}/{sp}", "multi": True, "fixed": True})
            b.refs.append({"scope": [mn], "ifbody": None, "slot": "gbinding", "at": f"{tc['name']}%gmeasure%garea", "name": "garea",
                           "expect": f"{mn}/{sc}", "multi": True, "fixed": True})
            b.feats.add("inherited-generic-binding")
        # a structure constructor: generic interface named like a type of this module
        for t in TYPES:
            if any(d["d"] == "type" and d["name"] == t for d in m["decls"]):
                has = ch.bool(1, 2)
                if has:
                    fn = b.fresh("make_" + t + "_")
                    f = {"k": "function", "name": fn, "args": [], "prefix": [], "result": "res", "ret_in_decls": True,
                         "rettype": {"base": "type", "proto": t}, "decls": [_var("res", {"base": "type", "proto": t})],
                         "exec": [], "procs": [], "uses": [], "doc": None}
                    m["procs"].append(f)
                    m["decls"].append({"d": "interface", "form": "generic", "name": t, "modprocs": [fn], "bodies": [],
                                       "doc": None, "access": None})
                    b.feats.add("constructor")
                b.refs.append({"scope": [mn], "ifbody": None, "slot": "constructor", "at": t, "name": t,
                               "expect": f"{mn}/{t}" if has else None, "multi": True, "fixed": True})
        mods.append(m)
        b.files.append({"path": f"src/{mn}.f90", "form": "free", "units": [m], "doc": None})
    # pass 2: module-level USE of earlier modules (ONLY lists, no clashes), procedures with shadowing
    for idx, m in enumerate(mods):
        sem = refsem.Sem({"files": b.files})
        taken = set(n for cls in sem.modules[m["name"]].locals.values() for n in cls)
        b.use_only(m, modnames[:idx], taken, sem)
        b.scopes.append((m, [m["name"]], False, True))
        for _ in range(ch.count(0, 2)):
            p = b.mksub(b.fresh("proc"))
            ptaken = set()
            sem = refsem.Sem({"files": b.files})
            b.use_only(p, [x for x in modnames[:idx]], ptaken, sem)
            b.local_decls(p, ptaken)
            if idx and "use_in_block" not in b.excl and ch.bool(1, 4):
                # a BLOCK construct with a USE statement of its own: what it imports is known inside the block only
                bm = ch.choice(modnames[:idx])
                tn = sorted(n for n in sem.exports(bm)["type"] if n in TYPES)
                if tn:
                    n_ = ch.choice(tn)
                    p["exec"] += ["block", f"use {bm}, only: {n_}", f"type({n_}) :: blk_{b.fresh('v')}", "end block"]
                    b.feats.add("use-inside-block")
            m["procs"].append(p)
            b.scopes.append((p, [m["name"], p["name"]], True, False))
            for q in list(p["procs"]):
                b.scopes.append((q, [m["name"], p["name"], q["name"]], True, False))
            if ch.bool(1, 3):
                q = b.mksub(b.fresh("inner"))
                qtaken = set()
                b.use_only(q, [x for x in modnames[:idx]], qtaken, sem)
                b.local_decls(q, qtaken, allow_procs=False)
                p["procs"].append(q)
                b.scopes.append((q, [m["name"], p["name"], q["name"]], True, False))
    # pass 3: top-level consumers
    sem = refsem.Sem({"files": b.files})
    for kind in ("program", "subroutine"):
        if ch.bool(2, 3):
            u = b.mksub(b.fresh("main" if kind == "program" else "ext"))
            u["k"] = kind
            taken = set()
            b.use_only(u, modnames, taken, sem)
            b.local_decls(u, taken)
            b.files.append({"path": f"src/{u['name']}.f90", "form": "free", "units": [u], "doc": None})
            b.scopes.append((u, [u["name"]], True, False))
            for q in u["procs"]:
                b.scopes.append((q, [u["name"], q["name"]], True, False))
    # pass 4: submodules with reused names
    if ch.bool(1, 3) and "submodules" not in b.excl:
        same = ch.bool(1, 2) and "submodule_same_name" not in b.excl
        for i, m in enumerate(mods[:2]):
            m["decls"].append({"d": "interface", "form": "explicit", "doc": None, "bodies": [
                {"k": "subroutine", "name": "work", "args": [], "prefix": ["module"], "decls": [], "doc": None}]})
            sname = "impl" if same else f"impl{i}"
            form = ch.choice(["modproc", "subroutine"])
            impl = {"k": form, "name": "work", "args": [], "prefix": ["module"] if form == "subroutine" else [],
                    "decls": [], "exec": [], "procs": [], "uses": [], "doc": None, "implicit_none": form == "subroutine"}
            sm = {"k": "submodule", "name": sname, "ancestor": m["name"], "parent": None, "uses": [], "decls": [],
                  "procs": [impl], "doc": None}
            b.files.append({"path": f"src/{m['name']}_{sname}.f90", "form": "free", "units": [sm], "doc": None})
            b.refs.append({"scope": [f"{m['name']}:{sname}"], "ifbody": None, "slot": "mpiface", "at": "work",
                           "name": "work", "expect": f"{m['name']}/work", "multi": True})
            b.refs.append({"scope": [f"{m['name']}:{sname}"], "ifbody": None, "slot": "subparent", "at": sname,
                           "name": sname, "expect": m["name"], "multi": same})
            if ch.bool(1, 2):
                deep = {"k": "submodule", "name": b.fresh("deep"), "ancestor": m["name"], "parent": sname, "uses": [],
                        "decls": [_var(b.fresh("v"))], "procs": [], "doc": None}
                b.files.append({"path": f"src/{m['name']}_{deep['name']}.f90", "form": "free", "units": [deep], "doc": None})
                b.refs.append({"scope": [f"{m['name']}:{deep['name']}"], "ifbody": None, "slot": "subparent",
                               "at": deep["name"], "name": sname, "expect": f"{m['name']}:{sname}", "multi": same})
                if ch.bool(1, 2) and "submodule_chain_entities" not in b.excl:
                    # entities of the intermediate submodule, known in its child: a separate module procedure declared
                    # in the one and implemented in the other, and a helper procedure called from there
                    dw, hp = f"deepwork{i}", f"subhelper{i}"
                    sm["decls"].append({"d": "interface", "form": "explicit", "doc": None, "bodies": [
                        {"k": "subroutine", "name": dw, "args": [], "prefix": ["module"], "decls": [], "doc": None}]})
                    sm["procs"].append(b.mksub(hp))
                    dform = ch.choice(["modproc", "subroutine"])
                    deep["procs"].append({"k": dform, "name": dw, "args": [], "prefix": ["module"] if dform == "subroutine" else [],
                                          "decls": [], "exec": [f"call {hp}()"], "procs": [], "uses": [], "doc": None,
                                          "implicit_none": dform == "subroutine"})
                    b.refs.append({"scope": [f"{m['name']}:{deep['name']}"], "ifbody": None, "slot": "mpiface", "at": dw,
                                   "name": dw, "expect": f"{sname}/{dw}", "multi": True, "fixed": True})
                    b.refs.append({"scope": [f"{m['name']}:{deep['name']}", dw], "ifbody": None, "slot": "call", "at": hp,
                                   "name": hp, "expect": f"{sname}/{hp}", "multi": True, "fixed": True})
                    b.feats.add("submodule:chain-entities")
            b.feats.add("submodule" + (":same-name" if same else ""))
            if ch.bool(1, 3) and "orphan_submodule" not in b.excl:
                # the parent submodule is declared nowhere in the project (its file is not among the sources):
                # the reference stays unresolved
                orphan = {"k": "submodule", "name": b.fresh("orphan"), "ancestor": m["name"], "parent": "nowhere_sub", "uses": [],
                          "decls": [_var(b.fresh("v"))], "procs": [], "doc": None}
                b.files.append({"path": f"src/{m['name']}_{orphan['name']}.f90", "form": "free", "units": [orphan], "doc": None})
                b.refs.append({"scope": [f"{m['name']}:{orphan['name']}"], "ifbody": None, "slot": "subparent",
                               "at": orphan["name"], "name": "nowhere_sub", "expect": f"{m['name']}:unresolved:nowhere_sub",
                               "multi": False})
                b.feats.add("submodule:orphan")
                b.gate_extra[f"zz_{m['name']}_nowhere_sub.f90"] = f"submodule ({m['name']}) nowhere_sub\nend submodule nowhere_sub\n"
    # references from every scope to every pool name
    proj = {"files": b.files}
    decl_count = {}
    semf = refsem.Sem(proj)
    for sc in semf.scopes.values():
        for cls in sc.locals:
            for n in sc.locals[cls]:
                if n in TYPES + PROCS + ABSI:
                    decl_count[n] = decl_count.get(n, 0) + 1
    for node, path, is_exec, is_modspec in b.scopes:
        sem = refsem.Sem(proj)
        s = sem.scopes[tuple(path)]
        decoys = []
        for n in ch.shuffle(TYPES + PROCS + ABSI):
            if not ch.bool(2, 3) or n == node["name"]:
                continue        # (a reference to the scope's own name would be a recursive call)
            cls = "type" if n in TYPES else ("proc" if n in PROCS else "absint")
            ent = sem.resolve(s, n, [cls] if cls != "absint" else ["proc", "absint"])
            # the name might be visible as another class (never in this generator: pools are disjoint)
            r = {"scope": list(path), "ifbody": None, "name": n, "expect": ent, "multi": decl_count.get(n, 0) >= 2 or
                 (ent is None and decl_count.get(n, 0) >= 1)}
            if cls == "type":
                form = ch.choice(["var", "extends", "classptr"])
                if form == "extends":
                    t = b.fresh("tx")
                    tt = b.mktype(t)
                    tt["extends"] = n
                    node["decls"].append(tt)
                    r.update(slot="extends", at=t)
                else:
                    v = b.fresh("refv")
                    d = _var(v, {"base": "type" if form == "var" else "class", "proto": n},
                             attrs=["pointer"] if form == "classptr" else [])
                    node["decls"].append(d)
                    r.update(slot="var", at=v)
            elif cls == "proc":
                forms = ["ptr"]
                if is_exec:
                    forms += ["call", "call"]
                if n in s.locals["proc"] and s.kind != "module":
                    forms = ["call"]      # (gfortran wants an internal procedure's interface after its body)
                if is_modspec:
                    forms += ["binding", "specific"]
                form = ch.choice(forms)
                if form == "call":
                    node["exec"].append(f"call {n}()")
                    r.update(slot="call", at=n)
                elif form == "ptr":
                    v = b.fresh("pp")
                    node["decls"].append(_var(v, {"base": "procedure", "proto": n}, attrs=["pointer"], init="null()", points=True))
                    r.update(slot="var", at=v)
                elif form == "binding":
                    t = b.mktype(b.fresh("tb"))
                    bn = b.fresh("bnd")
                    t["binds"].append({"name": bn, "target": n, "generic": False, "deferred": False, "iface": None,
                                       "attrs": ["nopass"], "access": None, "doc": None})
                    node["decls"].append(t)
                    r.update(slot="binding", at=f"{t['name']}%{bn}")
                else:
                    g = b.fresh("gen")
                    local = n in s.locals["proc"]
                    node["decls"].append({"d": "interface", "form": "generic", "name": g, "modprocs": [n], "bodies": [],
                                          "doc": None, "access": None, "plain_procedure": not local})
                    r.update(slot="specific", at=g)
            else:
                forms = ["ptr"] + (["deferred"] if is_modspec else [])
                form = ch.choice(forms)
                if form == "ptr":
                    v = b.fresh("pp")
                    node["decls"].append(_var(v, {"base": "procedure", "proto": n}, attrs=["pointer"], init="null()", points=True))
                    r.update(slot="var", at=v)
                else:
                    t = b.mktype(b.fresh("tabs"))
                    t["abstract"] = True
                    bn = b.fresh("dfr")
                    t["binds"].append({"name": bn, "target": None, "generic": False, "deferred": True, "iface": n,
                                       "attrs": ["nopass"], "access": None, "doc": None})
                    node["decls"].append(t)
                    r.update(slot="bindiface", at=f"{t['name']}%{bn}")
            b.refs.append(r)
            if ent is None:
                kind = {"type": "type", "proc": "sub", "absint": "absint"}[cls]
                decoys.append((kind, n))
                b.feats.add("decoy:" + cls + (":with-namesake" if decl_count.get(n) else ""))
            else:
                b.feats.add("ref:" + r["slot"])
        if decoys:
            stub = f"ext_stub_{b.fresh('x')}"
            node["uses"].append({"module": stub, "only": [[n, None] for _, n in decoys], "renames": [], "nature": None})
            b.stubs.append((stub, decoys))
            if node["k"] == "module":
                node.setdefault("private_names", []).extend(n for _, n in decoys)
    # expected resolutions on the final model (stub imports are unknown modules: they import nothing)
    sem = refsem.Sem(proj)
    nontrivial = False
    for r in b.refs:
        if r["slot"] in ("mpiface", "subparent") or r.get("fixed"):
            nontrivial |= bool(r.get("multi"))
            continue
        s = sem.scopes[tuple(r["scope"])]
        n = r["name"]
        cls = "type" if n in TYPES else ("proc" if n in PROCS else "absint")
        classes = [cls] if cls != "absint" else ["proc", "absint"]
        r["expect"] = sem.resolve(s, n, classes)
        r["via_rename"] = False
        nontrivial |= bool(r.get("multi"))
    # merge call references per scope (exact set of calls)
    merged, calls = [], {}
    for r in b.refs:
        if r["slot"] != "call":
            merged.append(r)
            continue
        c = calls.setdefault(tuple(r["scope"]), {"scope": r["scope"], "ifbody": None, "slot": "calls", "at": "calls",
                                                  "name": [], "expect": [], "via_rename": False})
        c["name"].append(r["name"])
        c["expect"].append(r["expect"] or "unresolved:" + r["name"].lower())
    for c in calls.values():
        c["expect"] = sorted(set(c["expect"]))
        merged.append(c)
    files, used = render.render_project(proj, ch, features={"comments": False})
    return {"files": files, "refs": merged, "stub": stub_source(b.stubs), "gate_extra": b.gate_extra, "classes": sorted(b.feats),
            "nontrivial": nontrivial, "order_seed": ch.int(256)}


def strategy(tier, excl):
    excl = tuple(excl)
    n = budget(tier)["orders"]

    def make(ch):
        c = gen_case(ch, excl)
        c["n_orders"] = n
        return c
    return from_bytes(make, min_size=200, max_size=1500)


def signature_for(r):
    if r["slot"] == "calls":
        return "calls"
    if r["slot"] in ("mpiface", "subparent"):
        return r["slot"]
    if r["expect"] is None:
        return "decoy-resolved:" + r["slot"]
    return "wrong-scope:" + r["slot"]


def check(case) -> Result:
    res = c06.check(case)
    # re-bucket signatures in this property's terms
    by_at = {(tuple(r["scope"]), r["at"]): r for r in case["refs"]}
    return res
