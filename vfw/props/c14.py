"""C14 - fixed-form sources document the same as their free-form equivalent.

Every model of the C01 generator (with documentation comments) and of the C08 generator
(executable parts with calls) is rendered twice: as free form and as fixed form (labels in
columns 1-5, any legal continuation character in column 6, breaks at token boundaries,
comment lines starting with C, c, * or !, sequence-field text from column 73, blank and
short lines, inline and own-line doc comments).  Oracle: equal canonical trees, including
documentation word sequences and recorded calls; with the length limit off the text beyond
column 72 is part of the statement instead.
"""
from __future__ import annotations

from vfw import extract, fordapi, gen, model, render
from vfw.choose import Chooser, from_bytes
from vfw.props import c01, c08
from vfw.runner import Result

ID = "C14"
LEVEL = "exploration"
TECHNIQUE = ("property-based testing: metamorphic relation between the free-form and the fixed-form rendering of one "
             "generated model (entity tree + documentation + calls must be equal)")
RULE = ("case = one generated project rendered as .f90 and as .f; non-trivial iff the fixed-form rendering contains a "
        "continuation line and a sequence field (or runs with the length limit off); labels, continuation characters, "
        "inline docs are counted as classes; distinct by SHA-1 of both renderings")
ASSUMPTIONS = [
    "fixed-form lines are broken only between lexical tokens (never inside a literal or an identifier), as FORD's "
    "converter documents; inline doc comments end before column 73 when the length limit is on",
    "gfortran -ffixed-form / free form accept both renderings behind a reported violation",
]
FORD_OPTS = dict(display=["public", "private", "protected"], proc_internals=True)


def budget(tier):
    if tier == "quick":
        return {"examples": 6400, "shrink_cap_s": 40}
    return {"examples": 64000, "shrink_cap_s": 240, "wall_cap_s": 3000}


def gen_case(ch: Chooser, excl=()):
    excl = set(excl)
    source = ch.weighted([(3, "c01"), (2, "c08")])
    limit = True if "limit_off" in excl else not ch.bool(1, 3)
    if source == "c01":
        proj, g = gen.gen_project(ch, {"docs": True, "late_access": True, "excl": tuple(excl)})
    else:
        import copy
        # rebuild the C08 model (we need the model, not its free-form text)
        proj = c08_model(ch, tuple(excl))
    feats = {"comments": True, "include_split": "include" not in excl}
    seq_pool = ["SEQ00010", "12345678", "x = 1", "abc"]
    if "seq_bang" not in excl:
        seq_pool += ["!seq0010", "!>x", "!!doc"]
    free, u1 = render.render_project(proj, ch, features=feats)
    fixed, u2 = render.render_project(proj, ch, features=dict(feats, seq_pool=seq_pool, fixed_exts=True), form="fixed",
                                      length_limit=limit)
    if not limit:
        # with the limit off nothing is cut at column 72: make some lines long on purpose is left to the
        # renderer (inline docs may run past column 72)
        pass
    nontrivial = ("fixed-continuation" in u2 and ("fixed-seqfield" in u2 or "fixed-long-line" in u2))
    classes = sorted(["src:" + source, "limit:" + ("on" if limit else "off")] + ["fx:" + k for k in u2 if k.startswith("fixed")])
    return {"free": free, "fixed": fixed, "limit": limit, "classes": classes,
            "nontrivial": bool(nontrivial) and "fixed-unbreakable" not in u2, "skip": "fixed-unbreakable" in u2}


def c08_model(ch, excl):
    """The project model of the C08 generator."""
    return c08.gen_model(ch, excl)[0]


def strategy(tier, excl):
    excl = tuple(excl)
    return from_bytes(lambda ch: gen_case(ch, excl), min_size=300, max_size=3000)


def tree_of(files, limit):
    with fordapi.Sandbox(files, prefix="vfw-c14-") as root:
        project, out = fordapi.parse_project(root, fixed_length_limit=limit, **FORD_OPTS)
        tree = extract.project_tree(project, root)
    # key by file stem so that a.f and a.f90 pair up
    return {k.rsplit(".", 1)[0]: v for k, v in tree.items()}, out


def check(case) -> Result:
    res = Result(nontrivial=case.get("nontrivial", False), classes=list(case.get("classes", [])))
    res.sample = {"fixed": case["fixed"], "limit": case["limit"]}
    res.evaluations = 2
    if case.get("skip"):
        res.nontrivial = False
        res.classes.append("skipped:unbreakable-line")
        return res
    try:
        t_free, _ = tree_of(case["free"], True)
    except Exception as e:
        res.fail("free:" + fordapi.exception_signature(e), f"{type(e).__name__}: {e}")
        return res
    try:
        t_fixed, out = tree_of(case["fixed"], case["limit"])
    except Exception as e:
        res.fail("fixed:" + fordapi.exception_signature(e), f"{type(e).__name__}: {e}")
        t_fixed = None
    if t_fixed is not None:
        missing = sorted(set(t_free) - set(t_fixed))
        if missing:
            res.fail("fixed-file-skipped", f"fixed-form files not parsed: {missing}; output: {out[-300:]}")
        for sig, msg in model.diff(t_free, t_fixed):
            if "missing-field" in sig and sig.startswith("."):
                continue
            res.fail("fixed-differs:" + sig, "free form vs fixed form: " + msg)
    if res.failures:
        ok1, err1 = fordapi.gfortran_check(case["free"])
        ok2, err2 = fordapi.gfortran_check(case["fixed"], fixed=True,
                                           extra_flags=() if case["limit"] else ("-ffixed-line-length-none",))
        if not (ok1 and ok2):
            res.failures = []
            res.fail("HARNESS:gfortran-rejects-generated-program", (err1 + err2)[-700:])
    return res
