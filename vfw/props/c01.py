"""C01 - documented entity tree equals the declared program structure.

Generated: abstract program models (vfw.gen) rendered twice with independent spelling
choices (vfw.render).  Oracles: (a) reference - the canonical tree extracted from FORD equals
the tree derived from the model alone; (b) metamorphic - the two renderings give equal
trees; (c) FORD does not fail.
"""
from __future__ import annotations

from vfw import extract, fordapi, gen, model, render
from vfw.choose import Chooser, from_bytes
from vfw.runner import Result

ID = "C01"
LEVEL = "exploration"
TECHNIQUE = ("property-based testing: model-based generation of Fortran projects, reference tree from the model "
             "+ metamorphic re-spelling; gfortran as validity gate")
RULE = ("case = one generated project (1-3 files) rendered in two independent spellings; non-trivial iff some "
        "scoping unit holds >=3 different entity kinds, the project has a nested (module/internal) procedure and the "
        "two renderings differ in >=3 spelling dimensions; distinct by SHA-1 of both renderings")
ASSUMPTIONS = [
    "reference tree = vfw.model.canon_project(model): written from the property statement, not from FORD's code",
    "vfw.extract absorbs only representation differences the statement calls equivalent (case, blanks outside literals, "
    "array spec on entity vs attribute, optional/parameter flag vs attribute)",
    "generated programs are valid Fortran: gfortran -fsyntax-only accepts every program behind a reported violation "
    "(and a sample of all programs in the thorough tier)",
]
CFG = {"docs": False, "late_access": True}
FORD_OPTS = dict(display=["public", "private", "protected"], proc_internals=True)


def budget(tier):
    if tier == "quick":
        return {"examples": 12800, "shrink_cap_s": 30}
    return {"examples": 64000, "shrink_cap_s": 280, "wall_cap_s": 3000}


def features_of(project):
    kinds = set()
    rich = False
    nested = False

    def scope(u):
        nonlocal rich, nested
        ks = set()
        for d in u.get("decls", []):
            ks.add(d["d"] if d["d"] != "interface" else "interface-" + d["form"])
            if d["d"] == "type":
                kinds.add("type")
                if d.get("binds"):
                    kinds.add("binding")
                if d.get("finals"):
                    kinds.add("final")
                if d.get("extends"):
                    kinds.add("extends")
        for p in u.get("procs", []):
            ks.add("proc")
            nested = True
            scope(p)
        if len(ks) >= 3:
            rich = True
        kinds.update(ks)

    for f in project["files"]:
        for u in f["units"]:
            kinds.add("unit-" + u["k"])
            scope(u)
    return kinds, rich, nested


def gen_case(ch: Chooser, excl=()):
    proj, g = gen.gen_project(ch, dict(CFG, excl=tuple(excl)))
    upper = False
    if "upper_ext" not in excl:
        # free-form sources under the upper-case extensions FORD documents (F90, F95, F03, F08): with preprocessing
        # off they are read as they are
        for f in proj["files"]:
            if f["path"].endswith(".f90") and ch.bool(1, 6):
                f["path"] = f["path"][:-4] + ch.choice([".F90", ".F95", ".F03", ".F08", ".f95", ".f03", ".f08"])
                upper = True
    bom = "byte_order_mark" not in excl and ch.bool(1, 8)
    files1, used1 = render.render_project(proj, ch)
    files2, used2 = render.render_project(proj, ch)
    if bom:
        # a UTF-8 byte order mark in front of the first file (editors on Windows write one; gfortran skips it)
        first = sorted(files1)[0]
        files1[first] = "\ufeff" + files1[first]
    kinds, rich, nested = features_of(proj)
    ndiff = sum(1 for k in set(used1) | set(used2) if used1.get(k) != used2.get(k))
    return {
        "files": files1, "files2": files2, "expected": model.canon_project(proj),
        "classes": sorted(kinds) + sorted(f"sty:{k}" for k in set(used1) | set(used2)) + (["ext:other"] if upper else []) + (["byte-order-mark"] if bom else []),
        "nontrivial": bool(rich and nested and ndiff >= 3),
    }


def strategy(tier, excl):
    excl = tuple(excl)
    return from_bytes(lambda ch: gen_case(ch, excl), min_size=200, max_size=3000)


def run_ford(files):
    with fordapi.Sandbox(files, prefix="vfw-c01-") as root:
        project, out = fordapi.parse_project(root, **FORD_OPTS)
        return extract.project_tree(project, root), out


def gate(files):
    ok, err = fordapi.gfortran_check(files)
    return ok, err


def check(case) -> Result:
    res = Result(nontrivial=case.get("nontrivial", False), classes=list(case.get("classes", [])))
    res.sample = {"files": case["files"]}
    res.evaluations = 2 if case.get("files2") else 1
    trees = []
    for key in ("files", "files2"):
        files = case.get(key)
        if not files:
            continue
        try:
            tree, out = run_ford(files)
        except Exception as e:
            res.fail(fordapi.exception_signature(e), f"{type(e).__name__}: {e} [{key}]")
            trees.append(None)
            continue
        trees.append(tree)
        if key == "files":
            for sig, msg in model.diff(case["expected"], tree):
                if sig.endswith(":missing-field") and msg.startswith(": field"):
                    sig = "source-file:missing"         # (one signature, whatever the file is called)
                res.fail("ref:" + sig, msg)
        # skipped-file diagnostics: every generated file must have been parsed
        missing = sorted(set(files) - set(tree))
        if missing:
            res.fail("file-skipped", f"files not parsed: {missing}; output: {out[-400:]}")
    if len(trees) == 2 and trees[0] is not None and trees[1] is not None:
        for sig, msg in model.diff(trees[0], trees[1]):
            res.fail("meta:" + sig, "spelling-dependent: " + msg)
    if res.failures:
        # validity gate: a failure on an invalid program is a generator bug, not a violation
        for key in ("files", "files2"):
            if case.get(key):
                ok, err = gate(case[key])
                if not ok:
                    res.failures = []
                    res.classes.append("gfortran-rejected")
                    res.fail("HARNESS:gfortran-rejects-generated-program", err[-600:])
                    break
    return res
