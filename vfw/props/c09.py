"""C09 - every internal link in the output resolves, and the output is relocatable.

Generated: projects of varying shape (one file / many; no module; only a program; only
external procedures; block data; namelists; submodules; types only) x option combinations
(incl_src, search, graph, proc_internals, display, sort, page_dir with nesting, project_url
empty, max_frontpage_items).  Oracle: a crawler over every generated page, inline SVG and
search entry: each internal URL is relative, its target file exists inside the output
directory, and its fragment names an element of the target.
"""
from __future__ import annotations

import os
import re

from vfw import fordapi, gen, render, site
from vfw.choose import Chooser, from_bytes
from vfw.runner import Result

ID = "C09"
LEVEL = "exploration"
TECHNIQUE = ("property-based testing: generated projects x option combinations, full site build, whole-output crawler "
             "(file exists, fragment id exists, URL relative) as validity oracle")
RULE = ("case = generated project + option set, built with the real ford.main; non-trivial iff the site has >=5 pages and "
        ">=1 option is off its default; distinct by SHA-1 of sources + options")
ASSUMPTIONS = [
    "http(s):, mailto:, javascript:, data: URLs are external; href='#' is allowed; pygments line anchors (#ln-N) exist",
    "'link works' means file and id exist (no JavaScript is executed)",
]
SHAPES = ["mixed", "mixed", "one-file", "program-only", "extprocs-only", "no-types", "types-only", "blockdata", "submodules"]
SORTS = ["src", "alpha", "permission", "permission-alpha", "type", "type-alpha"]


def budget(tier):
    if tier == "quick":
        return {"examples": 960, "shrink_cap_s": 60}
    return {"examples": 4800, "shrink_cap_s": 280, "wall_cap_s": 3300}


def doc_maker(g, what, n):
    """One to three lines; sometimes a second paragraph (summaries then end in a 'Read more' link to the full text)."""
    lines = [" " + " ".join(f"zq{n}x{i}w{j}" for j in range(g.ch.count(1, 3))) for i in range(g.ch.count(1, 2))]
    if g.ch.bool(1, 3):
        lines += ["", f" zq{n}x8w0 second paragraph" + (" [home](|url|)" if g.ch.bool(1, 4) else "") +
                  (' <a href="|url|/index.html">raw front</a>' if g.ch.bool(1, 4) else "")]
    g.entity_docs[n] = what
    return lines


def shape_cfg(shape):
    # "outside": some type-bound procedures are bound to procedures of a module that is not part of the project
    cfg = {"docs": True, "late_access": True, "outside": True, "doc_maker": doc_maker, "constructors": True}
    if shape == "one-file":
        cfg.update(max_files=1, max_units=2)
    elif shape == "program-only":
        cfg.update(max_files=1, max_units=1, only_unit="program")
    elif shape == "extprocs-only":
        cfg.update(max_files=2, only_unit="proc")
    elif shape == "no-types":
        cfg.update(types=False)
    elif shape == "types-only":
        cfg.update(interfaces=False, enums=False, commons=False, namelists=False, submodules=False)
    elif shape == "blockdata":
        cfg.update(only_unit="blockdata+module")
    elif shape == "submodules":
        cfg.update(force_submodules=True)
    return cfg


def gen_options(ch, excl=()):
    o = {"project": "Proj", "src_dir": "./src", "output_dir": "./doc", "preprocess": False, "parallel": 0}
    nondefault = 0

    def opt(key, default, values, p=(1, 3)):
        nonlocal nondefault
        if ch.bool(*p):
            v = ch.choice(values)
            if v != default:
                o[key] = v
                nondefault += 1

    opt("incl_src", True, [False])
    opt("search", True, [False], (1, 4))
    opt("graph", False, [True], (1, 3))
    if o.get("graph"):
        # small node limits: graphs are cut, or shown in their table form (whose cells are links too)
        opt("graph_maxnodes", 1000000000, [1, 2, 3], (1, 2))
        opt("graph_maxdepth", 10000, [1, 2], (1, 4))
    opt("proc_internals", False, [True], (1, 2))
    opt("display", None, [["public"], ["public", "private"], ["public", "private", "protected"], ["private"], ["none"]], (1, 2))
    opt("sort", "src", SORTS)
    opt("max_frontpage_items", 10, [0, 1, 3])
    opt("hide_undoc", False, [True], (1, 5))
    opt("source", False, [True], (1, 5))
    opt("show_proc_parent", False, [True], (1, 5))
    opt("coloured_edges", False, [True], (1, 6))
    # (project_url stays empty: with a URL given FORD writes absolute URLs by design, and the
    #  property speaks about the relative case)
    opt("summary", None, ["A *short* summary zq0x1w0"], (1, 4))
    opt("author", None, ["An Author"], (1, 4))
    opt("project_github", None, ["https://github.com/x/y"], (1, 6))
    return o, nondefault


def gen_pages(ch):
    """A small static page tree (C17 explores these in depth)."""
    pages = {"pages/index.md": "---\ntitle: Notes\n---\n\nTop page zq0x2w0. See [other](other.html).\n",
             "pages/other.md": "---\ntitle: Other\n---\n\nOther page. Back to [top](index.html) or [home](|url|/index.html) or [site](|url|).\n\n"
                               "<p>Raw HTML: <a href=\"|page|/index.html\">page root</a> and <a class='x' href='|url|/index.html'>front</a>.</p>\n"}
    if ch.bool():
        pages["pages/index.md"] += "And [sub](sub/index.html).\n"
        pages["pages/sub/index.md"] = "---\ntitle: Sub\n---\n\nSub page; up to [top](../index.html).\n"
        pages["pages/sub/deep.md"] = "---\ntitle: Deep\n---\n\nDeep page; [sibling](index.html) and [page root](|page|/index.html).\n"
    return pages


def gen_case(ch: Chooser, excl=()):
    shape = ch.choice(SHAPES)
    options, nondefault = gen_options(ch, excl)
    proj, g = gen.gen_project(ch, dict(shape_cfg(shape), excl=tuple(excl)))
    files, used = render.render_project(proj, ch, features={"comments": True})
    # texts of the project file that are shown on the front page only: links in them are relative to it
    unit = next((u for f in proj["files"] for u in f["units"] if u["k"] in ("module", "program") and u.get("name")), None)
    extra = " [home](|url|) [idx](|url|/index.html)" + (f" [[{unit['name']}]]" if unit else "")
    if "summary" in options and ch.bool(2, 3):
        options["summary"] += extra
    if "author" in options and ch.bool(1, 2):
        options["author_description"] = "Writes *code* zq0x3w0." + extra
    classes = ["shape:" + shape] + ["opt:" + k for k in options if k not in ("project", "src_dir", "output_dir", "preprocess", "parallel")]
    mod = next((u for f in proj["files"] for u in f["units"] if u["k"] == "module"), None)
    if mod is not None and "orphan_submodule" not in excl and ch.bool(1, 6):
        # a submodule whose parent submodule is not among the sources (its file lives elsewhere)
        files["src/zz_orphan.f90"] = (f"submodule ({mod['name']}:nowhere_sub) orphan_sm\n  !! zq0x9w0 orphan\n"
                                      "  integer :: orphan_var\nend submodule orphan_sm\n")
        classes.append("orphan-submodule")
    if ch.bool(1, 3):
        files.update(gen_pages(ch))
        options["page_dir"] = "./pages"
        classes.append("opt:page_dir")
        nondefault += 1
    body = "Project text zq0x0w0.\n"
    # where the project file and the output directory live
    layout = ch.weighted([(3, "plain"), (1, "dotdot"), (1, "redundant"), (1, "symlink")])
    pfile, outdir = "project.md", "doc"
    symlinks = []
    if layout == "dotdot":
        pfile, outdir = "docs/project.md", "site"
        options["src_dir"] = "../src"
        options["output_dir"] = "../site"
        if "page_dir" in options:
            options["page_dir"] = "../pages"
    elif layout == "redundant":
        options["output_dir"] = "./build/../doc"
    elif layout == "symlink":
        # the output directory is reached through a symbolic link (a `public` link to the web root)
        files["webroot/.keep"] = ""
        symlinks.append(["public", "webroot"])
        options["output_dir"] = "./public/doc"
        outdir = "webroot/doc"
    classes.append("layout:" + layout)
    files[pfile] = site.project_file(options, body)
    return {"files": files, "options": options, "classes": classes, "nondefault": nondefault, "project_file": pfile,
            "outdir": outdir, "symlinks": symlinks}


def strategy(tier, excl):
    excl = tuple(excl)
    return from_bytes(lambda ch: gen_case(ch, excl), min_size=400, max_size=4000)


def link_signature(kind, page, url):
    pdir = page.split("/")[0] if "/" in page else page.replace(".html", "")
    u = url
    frag = ""
    if "#" in u:
        u, frag = u.split("#", 1)
        frag = re.sub(r"[-~].*$", "", frag)          # anchor class: namelist, moduleprocedure, variable ...
    parts = [p for p in u.split("/") if p not in ("", ".", "..")]
    tdir = parts[-2] if len(parts) >= 2 else (parts[-1] if parts else "")
    tfile = parts[-1] if parts else ""
    if tdir in ("lists", "search") or not parts:
        tdir = "/".join(parts[-2:])
    elif kind == "absolute":
        tdir = parts[-2] if len(parts) >= 2 else tfile
        if "." not in tfile:
            tdir = "(output-directory)"       # the bare |url| alias: the path of the output directory itself
    return f"{kind}:{pdir}->{tdir}" + (f"#{frag}" if frag else "")


def check(case) -> Result:
    res = Result(classes=list(case.get("classes", [])))
    res.sample = {"options": case["options"], "files": {k: v for k, v in list(case["files"].items())[:3]}}
    try:
        with fordapi.Sandbox(case["files"], prefix="vfw-c09-") as root:
            for link, target in case.get("symlinks", []):
                (root / link).symlink_to(target, target_is_directory=True)
            data, out = site.build_site(root, case.get("project_file", "project.md"))
            idx = site.SiteIndex(root / case.get("outdir", "doc"))
            problems = idx.check_links()
            npages = len(idx.pages)
            # a tree that can be moved holds no trace of where it was built: not in a URL, not in the text
            built_at = os.path.realpath(str(root))
            for rel, page in idx.pages.items():
                if built_at in page.raw:
                    i = page.raw.index(built_at)
                    problems.append(("build-path-in-page", rel, "", "the page contains the path of the build directory: ..."
                                     + re.sub(r"\s+", " ", page.raw[max(0, i - 60): i + len(built_at) + 40]).replace(built_at, "<BUILD>") + "..."))
    except SystemExit as e:
        res.fail("HARNESS:ford-exited", f"ford exited: {e}")
        return res
    except Exception as e:
        res.fail("build:" + fordapi.exception_signature(e), f"{type(e).__name__}: {str(e)[:400]}")
        return res
    res.nontrivial = npages >= 5 and case.get("nondefault", 0) >= 1
    res.classes.append(f"pages:{min(npages // 5 * 5, 40)}+")
    seen = set()
    for kind, page, url, detail in problems:
        sig = link_signature(kind, page, url)
        if sig in seen:
            continue
        seen.add(sig)
        res.fail(sig, f"on {page}: {url} -> {detail}")
    return res
