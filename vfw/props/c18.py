"""C18 - rendered declarations say what the source says, and stay inert text.

Generated: declarations (module variables, named constants, type components, dummy
arguments, locals, function results, namelist members) whose character literals and
expressions draw from an alphabet of HTML- and Markdown-significant text (`<`, `>`, `&`,
quotes, backslashes, runs of blanks, `*_`|[`, tags, comment and template delimiters,
relational operators in kind / dimension / initial expressions).
Oracles: (i) fidelity - the cell of the declaration table found at the entity's anchor shows
the source text of the initial value (blanks outside literals ignored); (ii) metamorphic
inertness - the tag skeleton of every page equals the skeleton obtained when every nasty
piece is replaced by letters.
"""
from __future__ import annotations

import html as _html
import re

from vfw import fordapi, render, site
from vfw.choose import Chooser, from_bytes
from vfw.model import squash
from vfw.props.c06 import _var
from vfw.runner import Result

ID = "C18"
LEVEL = "exploration"
TECHNIQUE = ("property-based testing: metamorphic inertness (page tag skeleton invariant under literal substitution) + "
             "fidelity of displayed initial values against the source text")
RULE = ("case = generated project with nasty literals, built twice (nasty / benign literals); non-trivial iff >=1 literal "
        "contains `<` or `&` and >=1 relational operator occurs in an expression; distinct by SHA-1 of the nasty sources")
ASSUMPTIONS = [
    "the raw source listing (pygments output) is excluded from the skeleton: its token spans legitimately depend on the text",
    "bind(c) names are C identifiers (not generated with markup characters)",
    "gfortran accepts every program behind a reported violation",
]
I = {"base": "integer", "kind": None}
PIECES = ["<", ">", "&", "&amp;", "<b>", "</b>", "<script>alert(1)</script>", "a  b", "   ", "\\", "\\n", "*x*", "_y_", "`c`",
          "|", "[[m]]", "]]", "Q", "O", "<!--", "-->", "%s", "{{ x }}", "{% raw %}", "$$", "\\(", "#", "<td>", "</tr>",
          "</table>", "<i", "a<b", "1 < 2", "<a href='x'>", "&lt;", "&#60;", "C:\\Users\\ford\\docs", "\\\\\\", "a\\b\\c\\d"]
RELEXPR = ["merge(1, 2, lo < hi)", "merge(3, 4, lo<hi .and. hi>lo)", "merge(1, 2, lo <= hi)", "merge(2, 5, lo/=hi)",
           "max(lo, hi)", "merge(1, 2, lo<hi)"]


def budget(tier):
    if tier == "quick":
        return {"examples": 480, "shrink_cap_s": 60}
    return {"examples": 4800, "shrink_cap_s": 280, "wall_cap_s": 3300}


def literal(ch, benign):
    q = ch.choice(["'", '"'])
    other = '"' if q == "'" else "'"
    n = ch.count(1, 3)
    out, nasty = [], False
    for _ in range(n):
        p = ch.choice(PIECES)
        if p == "Q":
            txt, b = q + q, "qq"
        elif p == "O":
            txt, b = other, "o"
        else:
            txt, b = p.replace(q, q + q), re.sub(r"[^A-Za-z0-9 ]", "x", p).replace("  ", " x").replace("   ", " xx")
            if not b.strip():
                b = "x" * len(p)
        nasty |= any(c in p for c in "<&")
        out.append(b if benign else txt)
    return q + "".join(out) + q, nasty


def gen_model(ch: Chooser, benign: bool):
    """The same chooser bytes give the same structure for benign=True/False."""
    feats = {"nasty": False, "rel": False}
    S = lambda n: {"base": "character", "len": n, "kind": None}

    def lit():
        t, nasty = literal(ch, benign)
        feats["nasty"] |= nasty
        return t

    def charvar(name, where):
        form = ch.choice(["param", "init", "concat", "array"])
        d = _var(name, S("*") if form == "param" else S("200"))
        if form == "array":
            d["dimattr"] = "(2)"
            d["ents"][0]["init"] = "[character(len=200) :: " + lit() + ", " + lit() + "]"
            if where == "component":
                d["ts"] = S("200")
            return d
        if form == "param":
            d["parameter"] = True
            d["ents"][0]["init"] = lit()
            d["no_stmt"] = False        # may be written with a PARAMETER statement: `parameter (s = '...')`
        elif form == "init":
            d["ents"][0]["init"] = lit()
        else:
            d["ents"][0]["init"] = lit() + " // " + lit()
        if where == "component":
            d["ts"] = S("200")
            d["parameter"] = False
        return d

    def relvar(name, where):
        feats["rel"] = True
        form = ch.choice(["init", "dim", "kind", "logical"])
        # (the same bytes are consumed for the nasty and the benign variant)
        e, k_, l_ = ch.choice(RELEXPR), ch.choice(["merge(4, 8, lo < hi)", "merge(4, 8, lo<hi)"]), \
            ch.choice(["lo < hi", "lo<hi .and. hi > lo", "lo <= hi .or. lo >= hi", "lo /= hi", "lo == hi"])
        if benign:
            e, k_, l_ = "max(lo, hi)", "max(4, lo)", ".true."
        if form == "init":
            d = _var(name, I)
            d["ents"][0]["init"] = e
            if where != "component":
                d["parameter"] = True
        elif form == "dim":
            d = _var(name, {"base": "real", "kind": None})
            d["dimattr"] = f"({e})"
        elif form == "kind":
            d = _var(name, {"base": "integer", "kind": k_})
        else:
            d = _var(name, {"base": "logical", "kind": None})
            d["ents"][0]["init"] = l_
            if where != "component":
                d["parameter"] = True
                d["no_stmt"] = False        # may be written `parameter (flag = lo == hi)`: only the first `=` separates
        return d

    def attrvar(name, where):
        """A declaration whose interest lies in its attributes (identical in the nasty and the benign variant)."""
        ts = ch.choice([{"base": "integer", "kind": None}, {"base": "real", "kind": "kind(1.0d0)"}, {"base": "logical", "kind": None},
                        {"base": "integer", "kind": "selected_int_kind(9)"}, {"base": "character", "len": "max(2, 3)", "kind": None},
                        {"base": "complex", "kind": None},
                        # a slash / a character literal inside the type parameters
                        {"base": "character", "len": "8/2", "kind": None}, {"base": "integer", "kind": "16/2"},
                        {"base": "character", "len": "len('axb')" if benign else "len('a<b')", "kind": None},
                        {"base": "real", "kind": "kind(1.0d0)*8/8"},
                        # a backslash is an ordinary character of a literal
                        {"base": "character", "len": "3", "kind": "kind('axb')" if benign else "kind('a\\d')"}])
        d = _var(name, ts)
        shape = ch.choice([None, None, "(3)", "(2, 0:4)", "(:)", "(:, :)"])
        if where == "arg":
            d["intent"] = ch.choice(["in", "out", "inout", None])
            d["optional"] = ch.bool(1, 3)
            if shape in ("(:)", "(:, :)", "(3)"):
                d["dimattr"] = shape
            if d["intent"] != "out" and ch.bool(1, 4) and not d["dimattr"] and ts["base"] != "character":
                d["attrs"].append("value") if not d["optional"] and d["intent"] in ("in", None) else None
            elif ch.bool(1, 4) and d["intent"] != "in":
                d["attrs"].append(ch.choice(["target", "volatile"]))
            return d
        if shape in ("(:)", "(:, :)"):
            d["dimattr"] = shape
            d["attrs"].append(ch.choice(["allocatable", "pointer"]))
        elif shape:
            if ch.bool():
                d["dimattr"] = shape
            else:
                d["ents"][0]["dim"] = shape
        if where != "component":
            if "pointer" not in d["attrs"] and ch.bool(1, 3):
                d["attrs"].append("target")
            if where == "module" and ch.bool(1, 3):
                d["attrs"].append(ch.choice(["save", "volatile", "asynchronous"]))
            if ch.bool(1, 3):
                # two entities in one statement; an attribute statement further down names only the first
                import copy
                e2 = copy.deepcopy(d["ents"][0])
                e2["name"] = name + "b"
                d["ents"].append(e2)
                pool = [a for a in ("target", "volatile", "asynchronous") if a not in d["attrs"] and
                        not (a == "target" and "pointer" in d["attrs"])]
                d["ents"][0]["extra_attrs"] = [ch.choice(pool)]
                feats["entity-attr-stmt"] = True
        return d

    n = [0]

    def fresh(p):
        n[0] += 1
        return f"{p}{n[0]}"

    m = {"k": "module", "name": "m", "uses": [], "default_access": None, "access_pos": "early", "decls": [], "procs": [],
         "doc": [" module doc"]}
    lo, hi = _var("lo", I), _var("hi", I)
    lo["parameter"] = hi["parameter"] = True
    lo["ents"][0]["init"], hi["ents"][0]["init"] = "1", "2"
    m["decls"] += [lo, hi]
    for _ in range(ch.count(1, 4)):
        m["decls"].append(charvar(fresh("s"), "module") if ch.bool() else relvar(fresh("r"), "module"))
    for _ in range(ch.count(0, 2)):
        m["decls"].append(attrvar(fresh("w"), "module"))
    if ch.bool(2, 3):
        t = {"d": "type", "name": "rec_t", "abstract": False, "extends": None, "access": None, "access_how": "attr",
             "sequence": False, "private_comps": False, "comps": [], "private_binds": False, "binds": [], "finals": [],
             "doc": [" type doc"]}
        for _ in range(ch.count(1, 3)):
            t["comps"].append(charvar(fresh("c"), "component") if ch.bool() else relvar(fresh("rc"), "component"))
        if ch.bool(1, 2):
            t["comps"].append(attrvar(fresh("wc"), "component"))
        m["decls"].append(t)
    for _ in range(ch.count(1, 2)):
        k = ch.choice(["subroutine", "function"])
        p = {"k": k, "name": fresh("p"), "args": [], "prefix": [], "decls": [], "exec": [], "procs": [], "uses": [],
             "doc": [" proc doc"]}
        a = fresh("a")
        p["args"].append(a)
        p["decls"].append(_var(a, S("*"), intent="in"))
        for _ in range(ch.count(0, 3)):
            b_ = fresh("b")
            p["args"].append(b_)
            p["decls"].append(attrvar(b_, "arg"))
        for _ in range(ch.count(1, 3)):
            p["decls"].append(charvar(fresh("l"), "local") if ch.bool() else relvar(fresh("rl"), "local"))
        if ch.bool(1, 2):
            nl = [d["ents"][0]["name"] for d in p["decls"] if d["d"] == "var" and not d["parameter"] and not d["intent"]
                  and not d.get("dimattr")]
            if nl:
                p["decls"].append({"d": "namelist", "name": fresh("nml"), "vars": nl[:2], "doc": [" nml doc"]})
        if k == "function":
            p["rettype"] = dict(I)
            p["exec"] = [f"{p['name']} = 1"]
            if ch.bool(1, 2):
                p["result"] = fresh("Res")          # (mixed case on purpose: the heading shows the source spelling)
                p["exec"] = [f"{p['result']} = 1"]
        interoperable = not any(d.get("d") == "var" and d["ents"][0]["name"] in p["args"][1:] and
                                (d["ts"]["base"] == "character" or d.get("optional") or "value" in d.get("attrs", []))
                                for d in p["decls"])
        if ch.bool(1, 3) and interoperable:
            # a binding label: the literal must be shown as written
            p["bind"] = {"name": ch.choice(["'Mixed_Case'", '"c_name_2"', "'X'"]) if ch.bool(2, 3) else None}
        m["procs"].append(p)
    return {"files": [{"path": "src/m.f90", "form": "free", "units": [m], "doc": None}]}, feats


def gen_case(ch: Chooser, excl=()):
    data = ch.d
    proj_n, feats = gen_model(Chooser(data), False)
    proj_b, _ = gen_model(Chooser(data), True)
    # the same spelling choices for both variants (keyword case, attribute order, result / bind order ...)
    rbytes = bytes(reversed(data))
    files_n, _ = render.render_project(proj_n, Chooser(rbytes), features={"comments": False, "continuations": True, "literal_split": True})
    files_b, _ = render.render_project(proj_b, Chooser(rbytes), features={"comments": False, "continuations": True, "literal_split": True})
    options = {"project": "P", "src_dir": "./src", "output_dir": "./doc", "preprocess": False, "parallel": 0,
               "display": ["public", "private", "protected"], "proc_internals": True, "search": False, "incl_src": True}
    if len(data) and data[-1] % 3 == 0:
        # `lower` converts the non-string parts of the source to lower case; character literals must survive
        options["lower"] = True
        feats["lower"] = True
    heads = []
    for f in proj_n["files"]:
        for u in f["units"]:
            for pr in u.get("procs", []):
                heads.append({"name": pr["name"], "k": pr["k"], "args": list(pr.get("args", [])), "result": pr.get("result"),
                              "bind": pr.get("bind")})
    inits = []
    decls = []
    for d in _walk_vars(proj_n):
        for e in d["ents"]:
            if e.get("init") is not None:
                inits.append([e["name"], e["init"]])
            attrs = sorted(set(squash(a_) for a_ in d.get("attrs", [])) | ({"parameter"} if d.get("parameter") else set()) |
                           ({"optional"} if d.get("optional") else set()) |
                           ({f"intent({d['intent']})"} if d.get("intent") else set()) | set(e.get("extra_attrs", [])))
            decls.append({"name": e["name"], "base": d["ts"]["base"], "kind": squash(d["ts"].get("kind")),
                          "len": squash(d["ts"].get("len")), "proto": squash(d["ts"].get("proto")),
                          "dim": squash(e.get("dim") or d.get("dimattr")), "attrs": attrs})
    for f in (files_n, files_b):
        f["project.md"] = site.project_file(options, "body\n")
    return {"nasty": files_n, "benign": files_b, "inits": inits, "decls": decls, "heads": heads, "classes": [k for k, v in feats.items() if v],
            "nontrivial": feats["nasty"] and feats["rel"]}


def _walk_vars(node):
    if isinstance(node, dict):
        if node.get("d") == "var":
            yield node
        for v in node.values():
            yield from _walk_vars(v)
    elif isinstance(node, list):
        for v in node:
            yield from _walk_vars(v)


def strategy(tier, excl):
    excl = tuple(excl)
    return from_bytes(lambda ch: gen_case(ch, excl), min_size=120, max_size=800)


class _Skel(site.HTMLParser if hasattr(site, "HTMLParser") else object):
    pass


def skeleton(page: site.Page):
    return page.skeleton


def build(files):
    with fordapi.Sandbox(files, prefix="vfw-c18-") as root:
        site.build_site(root)
        idx = site.SiteIndex(root / "doc")
        return {rel: (p.skeleton, p.raw) for rel, p in idx.pages.items()}


ROW = re.compile(r'<tr>\s*<td>\s*<span class="anchor"[^>]*></span>(.*?)</tr>', re.S)


PERMISSIONS = {"public", "private", "protected"}


def split_top(text, sep=","):
    """Split at separators outside parentheses / brackets and character literals."""
    out, depth, cur, q = [], 0, [], None
    for c in text:
        if q:
            cur.append(c)
            if c == q:
                q = None
            continue
        if c in "'\"":
            q = c
        elif c in "([":
            depth += 1
        elif c in ")]":
            depth -= 1
        if c == sep and depth == 0:
            out.append("".join(cur))
            cur = []
        else:
            cur.append(c)
    out.append("".join(cur))
    return [x.strip() for x in out if x.strip()]


def shown_declarations(raw):
    """name -> list of what a declaration row shows: base, kind, len, proto, dim, attrs (permission words removed)."""
    out = {}
    for m in ROW.finditer(raw):
        cells = re.findall(r"<td[^>]*>(.*?)</td>", "<td>" + m.group(1), re.S)
        texts = [_html.unescape(re.sub(r"<[^>]*>", "", c)).replace("\xa0", " ").strip() for c in cells]
        if "::" not in texts:
            continue
        i = texts.index("::")
        left = split_top(" ".join(t for t in texts[:i] if t).replace(", ,", ","))
        if not left or len(texts) <= i + 1:
            continue
        spec = left[0]
        mm = re.match(r"^([a-z ]+?)\s*(?:\((.*)\))?$", spec, re.I | re.S)
        if not mm:
            namecell = texts[i + 1]
            nm = re.split(r"[(\[*]", namecell)[0].strip().lower()
            out.setdefault(nm, []).append({"base": None, "raw": spec, "kind": None, "len": None, "proto": None, "dim": None, "attrs": []})
            continue
        base = " ".join(mm.group(1).lower().split())
        kind = ln = proto = None
        args = split_top(mm.group(2) or "")
        if base in ("type", "class"):
            proto = squash(mm.group(2))
        else:
            for k, a in enumerate(args):
                a2 = squash(a)
                if a2.startswith("kind="):
                    kind = a2[5:]
                elif a2.startswith("len="):
                    ln = a2[4:]
                elif base == "character" and k == 0:
                    ln = a2
                else:
                    kind = a2
        attrs, dim = set(), None
        for a in left[1:]:
            a2 = squash(a)
            if a2 in PERMISSIONS:
                continue
            if a2.startswith("dimension("):
                dim = a2[len("dimension"):]
            else:
                attrs.add(a2)
        namecell = texts[i + 1]
        nm = re.split(r"[(\[*]", namecell)[0].strip().lower()
        rest = namecell[len(nm):].strip()
        if rest.startswith("(") and dim is None:
            dim = squash(rest)
        out.setdefault(nm, []).append({"base": base, "kind": kind, "len": ln, "proto": proto, "dim": dim, "attrs": sorted(attrs)})
    return out


def shown_initials(raw):
    """name -> text of the Initial cell, for every row of a variable table that has one."""
    out = {}
    for m in ROW.finditer(raw):
        cells = re.findall(r"<td[^>]*>(.*?)</td>", "<td>" + m.group(1), re.S)
        texts = [_html.unescape(re.sub(r"<[^>]*>", "", c)).replace("\xa0", " ").strip() for c in cells]
        # ... :: | name(dim) | = | initial | doc
        if "::" in texts:
            i = texts.index("::")
            if len(texts) > i + 3 and texts[i + 2] in ("=", "=>"):
                nm = re.split(r"[(\[*]", texts[i + 1])[0].strip().lower()
                out.setdefault(nm, []).append(texts[i + 3])
    return out


def check(case) -> Result:
    res = Result(nontrivial=case.get("nontrivial", False), classes=list(case.get("classes", [])))
    res.sample = {"source": case["nasty"]["src/m.f90"]}
    res.evaluations = 2
    try:
        A = build(case["nasty"])
        B = build(case["benign"])
    except SystemExit as e:
        res.fail("HARNESS:ford-exited", str(e))
        return res
    except Exception as e:
        res.fail("build:" + fordapi.exception_signature(e), f"{type(e).__name__}: {str(e)[:300]}")
        return res
    if set(A) != set(B):
        res.fail("page-set-differs", f"pages differ: {sorted(set(A) ^ set(B))}")
    for rel in sorted(set(A) & set(B)):
        sa, sb = A[rel][0], B[rel][0]
        if sa != sb:
            # first difference, with some context
            k = next((i for i, (x, y) in enumerate(zip(sa, sb)) if x != y), min(len(sa), len(sb)))
            kind = rel.split("/")[0] if "/" in rel else rel
            res.fail(f"structure-changed:{kind}",
                     f"{rel}: tag skeleton differs at #{k}: nasty ...{sa[max(0, k - 4):k + 3]} vs benign "
                     f"...{sb[max(0, k - 4):k + 3]}")
    # fidelity of initial values
    shown = {}
    for rel, (sk, raw) in A.items():
        for nm, vals in shown_initials(raw).items():
            shown.setdefault(nm, []).extend((rel, v) for v in vals)
    for name, init in case["inits"]:
        exp = squash(init)
        for rel, v in shown.get(name.lower(), []):
            if squash(v) != exp:
                res.fail("initial-value-altered", f"{rel}: {name} is declared with {init!r} but shown as {v!r}")
    # fidelity of the rest of the declaration: type, kind / length, dimensions, attributes
    shown_d = {}
    for rel, (sk, raw) in A.items():
        for nm, rows in shown_declarations(raw).items():
            shown_d.setdefault(nm, []).extend((rel, r) for r in rows)
    for d in case.get("decls", []):
        for rel, r in shown_d.get(d["name"].lower(), []):
            if r["base"] is None:
                res.fail("declaration-altered:type-text", f"{rel}: the type of {d['name']} is shown as {r['raw']!r}")
                continue
            for field in ("base", "kind", "len", "proto", "dim"):
                want, got = d[field], r[field]
                if field == "len" and want is None and d["base"] == "character":
                    want = "1"
                if field == "base":
                    want = " ".join(want.lower().split())
                if (want or None) != (got or None):
                    res.fail(f"declaration-altered:{field}", f"{rel}: {d['name']} is declared with {field} {want!r} but shown with {got!r} ({r})")
            if sorted(d["attrs"]) != r["attrs"]:
                res.fail("declaration-altered:attributes", f"{rel}: {d['name']} is declared with attributes {d['attrs']} but shown with {r['attrs']}")
    # namelist pages: the Default column shows the initial value, or nothing
    init_of = {n.lower(): v for n, v in case["inits"]}
    for rel, (sk, raw) in A.items():
        if not rel.startswith("namelist/"):
            continue
        for mrow in re.finditer(r'<tr id="variable-([^"]+)">(.*?)</tr>', raw, re.S):
            cells = [_html.unescape(re.sub(r"<[^>]*>", "", c)).replace("\xa0", " ").strip()
                     for c in re.findall(r"<td[^>]*>(.*?)</td>", mrow.group(2), re.S)]
            if len(cells) < 3:
                continue
            nm = cells[0].lower()
            want = init_of.get(nm)
            if squash(cells[2]) != (squash(want) if want is not None else ""):
                res.fail("namelist-default-altered", f"{rel}: {nm} has initial value {want!r} but the Default column shows {cells[2]!r}")
    # procedure headings: argument list, result name, binding label
    for h in case.get("heads", []):
        rel = f"proc/{h['name'].lower()}.html"
        if rel not in A:
            continue
        mh = re.search(r"<h2>(.*?)</h2>", A[rel][1], re.S)
        if not mh:
            continue
        text = re.sub(r"\s+", "", squash(_html.unescape(re.sub(r"<[^>]+>", "", mh.group(1)))))
        want = squash(f"{h['k']} {h['name']}({', '.join(h['args'])})")
        if want not in text:
            res.fail("heading-altered:arguments", f"{rel}: heading {text!r} does not show {want!r}")
        if h.get("result") and squash(f"result({h['result']})") not in text:
            res.fail("heading-altered:result", f"{rel}: heading {text!r} does not show result({h['result']})")
        b = ""
        if h.get("bind") is not None:
            b = "bind(c" + (f",name={h['bind']['name']}" if h["bind"].get("name") else "") + ")"
            if squash(b) not in text:
                res.fail("heading-altered:bind", f"{rel}: heading {text!r} does not show {b}")
        # ... and nothing else after the argument list
        r_ = squash(f"result({h['result']})") if h.get("result") else ""
        tail = text[text.index(want) + len(want):] if want in text else None
        if tail is not None and tail not in (r_ + squash(b), squash(b) + r_):
            res.fail("heading-altered:suffix", f"{rel}: heading ends with {tail!r}, declared suffix is {r_ + squash(b)!r}")
    if res.failures:
        ok, err = fordapi.gfortran_check({k: v for k, v in case["nasty"].items() if k.endswith(".f90")})
        if not ok:
            res.failures = []
            res.fail("HARNESS:gfortran-rejects-generated-program", err[-600:])
    return res
