"""C11 - [[...]] references link to the entity the documented rules select.

A project with a known entity set (two modules that deliberately share some names, a
program with a namelist, an external procedure, block data, a hidden entity) is documented
with generated references placed in every documented context: docstrings of modules,
procedures, types, components, variables, the program; the project file; static pages at
depth 0-2.  References use every documented spelling: bare name, kind qualifier (all
synonyms), child part with and without qualifiers; existing, hidden and absent targets;
inside code spans / blocks.  A tracer word precedes each reference.
Oracle: on *every page where the tracer appears*, the <a> that follows it resolves
(relative to that page) to the URL of the entity the documented lookup order selects;
absent / hidden targets give plain text (no href) and a warning naming the reference;
references in code stay verbatim.
"""
from __future__ import annotations

import os
import re
from urllib.parse import unquote

from vfw import fordapi, site
from vfw.choose import Chooser, from_bytes
from vfw.runner import Result

ID = "C11"
LEVEL = "exploration"
TECHNIQUE = ("property-based testing: generated references (spelling x context x target) in a project with a known "
             "entity set; oracle = intended target by the documented lookup order, URL taken from the target's page")
RULE = ("case = project + 20-40 generated references; non-trivial iff some reference's name exists at >=2 lookup levels or "
        "needs a qualifier to disambiguate; distinct by SHA-1 of all files")
ASSUMPTIONS = [
    "when several project-level entities match an unqualified name the guide calls the choice undefined: any is accepted",
    "expected URLs are the target entities' own get_url() (C09/C10 check those pages exist and are distinct)",
]
KIND_SYNONYMS = {
    "sub": ["subroutine", "proc", "procedure"], "fun": ["function", "proc", "procedure"], "module": ["module"],
    "type": ["type"], "program": ["program"], "file": ["file"], "absint": ["interface", "absinterface"],
    "block": ["block"], "namelist": ["namelist"],
}
CHILD_KINDS = {"sub": ["subroutine"], "fun": ["function"], "type": ["type"], "var": ["variable"], "bound": ["bound"],
               "absint": ["absinterface"], "generic": ["interface"], "comp": ["variable"]}


def budget(tier):
    if tier == "quick":
        return {"examples": 320, "shrink_cap_s": 60}
    return {"examples": 3200, "shrink_cap_s": 280, "wall_cap_s": 3300}


def module_src(m, other, docs):
    """m in {ma, mb}; docs: context key -> list of doc lines"""
    d = lambda key: "".join(f"  !! {l}\n" for l in docs.get(key, []))
    extra_a = """  abstract interface
    subroutine cb_iface(x)
      !! the callback interface
      integer, intent(in) :: x
    end subroutine cb_iface
  end interface
  interface gen_a
    !! a generic
    module procedure fa_only
  end interface gen_a
  private :: hidden_sub
""" if m == "ma" else ""
    only = "fa_only" if m == "ma" else "fb_only"
    # mb overrides the structure constructor: a generic interface named like the type (needs a kind qualifier)
    ctor_iface = """  interface shape_t
    !! overridden constructor
    module procedure make_shape
  end interface shape_t
""" if m == "mb" else ""
    ctor_impl = """  function make_shape() result(s)
    !! makes one
    type(shape_t) :: s
    s%area = 0.0
  end function make_shape
""" if m == "mb" else ""
    hidden = """  subroutine hidden_sub()
    !! a private one
  end subroutine hidden_sub
""" if m == "ma" else ""
    # a binding implemented by a private procedure (its page is not written); the binding's own comment may mention it
    paint = ("    procedure, nopass :: paint => hidden_sub\n" + "".join(f"      !! {l}\n" for l in docs.get("ma/shape_t/paint", ["paints"]))) \
        if m == "ma" else ""
    return f"""module {m}
{d(m)}  implicit none
  integer :: counter
{d(m + '/counter')}  type shape_t
{d(m + '/shape_t')}    real :: area
{d(m + '/shape_t/area')}  contains
    procedure, nopass :: draw => helper
      !! draws
{paint}  end type shape_t
{ctor_iface}{extra_a}contains
  subroutine helper()
{d(m + '/helper')}    type local_t
      !! a type of this procedure only
      integer :: local_comp
    end type local_t
  end subroutine helper
  integer function {only}(n)
    !! unique to {m}
    integer, intent(in) :: n
    {only} = n
  end function {only}
{ctor_impl}{hidden}end module {m}
"""


MAIN = """program main_prog
{doc}  use ma
  implicit none
  integer :: steps
  namelist /nl_cfg/ steps
    !! configuration namelist
  steps = fa_only(1)
end program main_prog

subroutine ext_sub()
  !! external one
end subroutine ext_sub

block data bdat
  !! legacy data
  integer :: old
  common /oldblk/ old
end block data bdat
"""

# entity key -> (kind, how to find the FORD object)
ENTITIES = {
    "ma": "module", "mb": "module", "ma/helper": "sub", "mb/helper": "sub", "ma/fa_only": "fun", "mb/fb_only": "fun",
    "ma/shape_t": "type", "mb/shape_t": "type", "ma/counter": "var", "mb/counter": "var", "ma/shape_t/area": "comp",
    "mb/shape_t/area": "comp", "ma/shape_t/draw": "bound", "mb/shape_t/draw": "bound", "ma/cb_iface": "absint",
    "ma/gen_a": "generic", "mb/shape_t@ctor": "generic", "mb/make_shape": "fun", "main_prog": "program", "ext_sub": "sub", "bdat": "block", "nl_cfg": "namelist",
    "ma.f90": "file", "mb.f90": "file", "main.f90": "file", "build.sh": "file",
}
CONTEXTS = ["ma", "mb", "ma/counter", "ma/shape_t", "ma/shape_t/area", "ma/shape_t/paint", "ma/helper", "mb/helper", "mb/shape_t",
            "main_prog", "PROJECT", "PAGE0", "PAGE1", "PAGE2"]


def module_of(ctx):
    return ctx.split("/")[0] if ctx.split("/")[0] in ("ma", "mb") else None


def gen_reference(ch, ctx):
    """-> (text of the reference, expected targets (list of entity keys; [] = plain text), flags)"""
    mod = module_of(ctx)
    if ctx.endswith("/paint") and ch.bool(1, 2):
        # the private procedure behind the binding: found through the binding, but it has no page
        return "[[hidden_sub]]", [], {"hidden-implementation"}
    if ctx.endswith("/helper") and ch.bool(1, 4):
        # a type declared inside the procedure: it has no page and no anchor, the reference stays plain text
        return "[[local_t]]", [], {"local-type"}
    form = ch.weighted([(4, "unique"), (3, "qualified"), (4, "scoped"), (4, "child"), (2, "absent"), (1, "hidden"), (2, "code")])
    flags = set([form])
    if form == "unique":
        key = ch.choice(["ma/fa_only", "mb/fb_only", "main_prog", "ext_sub", "ma", "mb", "ma/cb_iface", "bdat", "nl_cfg",
                         "build.sh", "mb.f90"])
        return f"[[{key.split('/')[-1]}]]", [key], flags
    if form == "qualified":
        key = ch.choice(["ma/fa_only", "mb/fb_only", "main_prog", "ext_sub", "ma", "mb", "ma/cb_iface", "bdat", "nl_cfg",
                         "ma.f90", "main.f90", "build.sh"])
        kind = ENTITIES[key]
        q = ch.choice(KIND_SYNONYMS[kind])
        if ch.bool(1, 4):
            q = q.upper() if ch.bool() else q.capitalize()
            flags.add("qualifier-case")
        return f"[[{key.split('/')[-1]}({q})]]", [key], flags
    CH = {"ma": ["counter", "shape_t", "helper", "fa_only", "cb_iface", "gen_a"], "mb": ["counter", "shape_t", "helper", "fb_only"],
          "ma/shape_t": ["area", "draw"], "mb/shape_t": ["area", "draw"]}

    def scoped(name):
        """Documented order: the context's own contents, then its parent's, then the whole project."""
        for level in (ctx, ctx.rsplit("/", 1)[0] if "/" in ctx else None):
            if level and name in CH.get(level, []):
                return [f"{level}/{name}"]
        if ctx in ("ma", "mb") and name == ctx:
            return [ctx]
        return None

    if form == "scoped":
        # a name that exists in both modules: the context decides
        name = ch.choice(["helper", "shape_t", "counter"])
        flags.add("multi-level")
        kindq = {"helper": ["subroutine", "proc"], "shape_t": ["type"], "counter": None}[name]
        q = ""
        if kindq and ch.bool(1, 3):
            q = f"({ch.choice(kindq)})"
        local = scoped(name)
        if name == "counter":
            # variables have no project-level collection: only contexts that reach them locally see them
            if local is None:
                return f"[[{name}]]", [], flags | {"variable-from-outside"}
            return f"[[{name}{q}]]", local, flags
        ctor = ["mb/shape_t@ctor"] if (name == "shape_t" and not q) else []
        if local is not None:
            return f"[[{name}{q}]]", local + (ctor if local[0].startswith("mb/") else []), flags
        return f"[[{name}{q}]]", [f"ma/{name}", f"mb/{name}"] + ctor, flags | {"undefined-choice"}
    if form == "child":
        parent = ch.choice(["ma", "mb"])
        child = ch.choice(["helper", "shape_t", "counter"] + (["fa_only", "cb_iface", "gen_a"] if parent == "ma" else ["fb_only"]))
        key = f"{parent}/{child}"
        kind = ENTITIES[key]
        pq = "(module)" if ch.bool(1, 3) else ""
        cq = f"({ch.choice(CHILD_KINDS[kind])})" if ch.bool(1, 2) else ""
        if ch.bool(1, 4):
            # component / binding of a type: [[shape_t:area]] resolves shape_t by scope first
            comp = ch.choice(["area", "draw"])
            tq = "(type)" if ch.bool(1, 3) else ""
            cq2 = ""
            if ch.bool(1, 2):
                cq2 = "(variable)" if comp == "area" else "(bound)"
            local = scoped("shape_t")
            if local is None or local[0].startswith("mb/"):
                tq = "(type)"       # mb's type shares its name with its constructor interface: unqualified is undefined
            if local is not None:
                return f"[[shape_t{tq}:{comp}{cq2}]]", [f"{local[0]}/{comp}"], flags | {"type-child", "multi-level"}
            return f"[[shape_t{tq}:{comp}{cq2}]]", ["ma/shape_t/" + comp, "mb/shape_t/" + comp], flags | {"type-child", "undefined-choice"}
        if key == "mb/shape_t":
            # the type and its overridden constructor share the name: the item qualifier decides
            which = ch.choice(["type", "interface", None])
            if which == "interface":
                return f"[[{parent}{pq}:{child}(interface)]]", ["mb/shape_t@ctor"], flags | {"constructor-qualifier"}
            if which is None:
                return f"[[{parent}{pq}:{child}]]", [key, "mb/shape_t@ctor"], flags | {"undefined-choice"}
            return f"[[{parent}{pq}:{child}(type)]]", [key], flags | {"constructor-qualifier"}
        return f"[[{parent}{pq}:{child}{cq}]]", [key], flags
    if form == "absent":
        name = ch.choice(["no_such_thing", "missing_proc", "ghost_t"])
        q = ch.choice(["", "", "(type)", "(proc)", "(module)"])
        return f"[[{name}{q}]]", [], flags
    if form == "hidden":
        return "[[hidden_sub]]", [], flags
    ref = ch.choice(["[[fa_only]]", "[[ma:helper]]", "[[no_such_thing]]"])
    return ref, None, flags        # None = must stay verbatim (the caller wraps it in code markup)


def gen_case(ch: Chooser, excl=()):
    refs = []
    docs = {}
    n = 0
    feats = set()
    for ctx in CONTEXTS:
        for _ in range(ch.count(1, 3)):
            n += 1
            text, targets, flags = gen_reference(ch, ctx)
            tracer = f"zq{n}x0w0"
            if targets is None:
                style = ch.choice(["span", "fence"])
                if style == "span":
                    lines = [f"{tracer} `{text}` zq{n}x1w0"]
                else:
                    lines = [f"{tracer}", "", "```", text, "```", "", f"zq{n}x1w0"]
                flags.add("code-" + style)
            else:
                lines = [f"{tracer} {text} zq{n}x1w0", ""]
            docs.setdefault(ctx, []).extend(lines)
            refs.append({"tracer": tracer, "ref": text, "targets": targets, "ctx": ctx, "flags": sorted(flags)})
            feats |= flags
    files = {"src/ma.f90": module_src("ma", "mb", docs), "src/mb.f90": module_src("mb", "ma", docs),
             "src/main.f90": MAIN.format(doc="".join(f"  !! {l}\n" for l in docs.get("main_prog", [])))}
    files["src/build.sh"] = "#!/bin/sh\n#! A build script (non-Fortran source file)\necho build\n"
    page = lambda title, key: f"---\ntitle: {title}\n---\n\n" + "\n".join(docs.get(key, [])) + "\n"
    files["pages/index.md"] = page("Top", "PAGE0")
    files["pages/sub/index.md"] = page("Sub", "PAGE1")
    files["pages/sub/deep/index.md"] = page("Deep", "PAGE2")
    options = {"project": "P", "src_dir": "./src", "output_dir": "./doc", "page_dir": "./pages", "preprocess": False,
               "parallel": 0, "search": False, "display": ["public", "protected"], "proc_internals": ch.bool(),
               "extra_filetypes": "sh #"}
    if "incl_src_off" not in excl and ch.bool(1, 4):
        # no pages are written for source files: a reference to a file has nothing to link to
        options["incl_src"] = False
        for r in refs:
            if r["targets"] and all(ENTITIES.get(t) == "file" for t in r["targets"]):
                r["targets"] = []
                r["flags"] = sorted(set(r["flags"]) | {"file-without-page"})
    files["project.md"] = site.project_file(options, "\n".join(docs.get("PROJECT", [])) + "\n")
    nt = any(("multi-level" in r["flags"] or "qualified" in r["flags"]) for r in refs)
    return {"files": files, "options": options, "refs": refs, "classes": sorted(feats), "nontrivial": nt}


def strategy(tier, excl):
    excl = tuple(excl)
    return from_bytes(lambda ch: gen_case(ch, excl), min_size=200, max_size=900)


def find_entity(project, key):
    parts = key.split("/")
    if key.endswith((".f90", ".sh")):
        return next((f for f in project.allfiles if f.name == key), None)
    top = parts[0]
    for coll in (project.modules, project.programs, project.procedures, project.blockdata, project.namelists):
        for e in coll:
            if str(e.name).lower() == top and (len(parts) > 1 or True):
                cur = e
                for nm in parts[1:]:
                    nxt = None
                    if nm.endswith("@ctor"):
                        cur = next((i for i in cur.interfaces if str(i.name).lower() == nm[:-5]), None)
                        if cur is None:
                            return None
                        continue
                    for c in cur.children:
                        if hasattr(c, "name") and str(c.name).lower() == nm:
                            nxt = c
                            break
                    if nxt is None:
                        return None
                    cur = nxt
                if len(parts) == 1 and coll is project.procedures and getattr(e, "parobj", None) != "sourcefile":
                    continue
                return cur
    return None


def check(case) -> Result:
    res = Result(nontrivial=case.get("nontrivial", False), classes=list(case.get("classes", [])))
    res.sample = {"refs": case["refs"][:8]}
    try:
        with fordapi.Sandbox(case["files"], prefix="vfw-c11-") as root:
            data, out = site.build_site(root)
            docs = site.CAPTURED["docs"]
            idx = site.SiteIndex(root / "doc")
            urls = {}
            for key in ENTITIES:
                e = find_entity(docs.project, key)
                urls[key] = e.get_url() if e is not None else None
    except SystemExit as e:
        res.fail("HARNESS:ford-exited", str(e))
        return res
    except Exception as e:
        res.fail("build:" + fordapi.exception_signature(e), f"{type(e).__name__}: {str(e)[:300]}")
        return res
    res.evaluations = len(case["refs"])
    for r in case["refs"]:
        t = r["tracer"]
        pages = [rel for rel, p in idx.pages.items() if t in p.raw and not rel.startswith("sourcefile/")]
        if not pages:
            continue        # the context's documentation is not displayed under these options
        kind = "+".join(f for f in r["flags"] if f in ("unique", "qualified", "scoped", "child", "absent", "hidden", "code"))
        for rel in pages:
            raw = idx.pages[rel].raw
            closing = t.replace("x0w0", "x1w0")
            a_ = raw.index(t)
            b_ = raw.find(closing, a_)
            if b_ < 0:
                continue        # only the beginning of the text is shown here (a summary)
            raw = raw[a_:b_]
            m = re.search(re.escape(t) + r"\s*(?:<a(?P<attrs>[^>]*)>(?P<text>[^<]*)</a>|(?P<code><code>)?(?P<verb>\[\[[^\]]*\]\]))", raw)
            m2 = re.search(re.escape(t) + r"(?:\s|</p>|<p>|<pre[^>]*>|<div[^>]*>|<span[^>]*>|</span>|<code>)*(?P<verb>\[\[[^\]]*\]\])", raw)
            if r["targets"] is None:
                import html as _h
                plain = _h.unescape(re.sub(r"<[^>]*>", "", raw))
                if "<a" in raw or r["ref"] not in plain:
                    res.fail("code-not-verbatim", f"{rel}: reference {r['ref']} in code markup was changed (context {r['ctx']})")
                continue
            if m is None or m.group("verb"):
                res.fail(f"not-converted:{kind}", f"{rel}: {r['ref']} (context {r['ctx']}) was not turned into a link element")
                continue
            href = re.search(r'href="([^"]*)"', m.group("attrs") or "")
            if not r["targets"]:
                if href:
                    res.fail(f"link-to-nonexistent:{kind}", f"{rel}: {r['ref']} (context {r['ctx']}) links to {href.group(1)} "
                                                             f"but nothing visible has that name")
                elif r["ref"].strip("[]").split("(")[0].split(":")[0] not in out:
                    res.fail(f"no-warning:{kind}", f"no warning names {r['ref']} (context {r['ctx']})")
                continue
            if not href:
                res.fail(f"unresolved:{kind}", f"{rel}: {r['ref']} (context {r['ctx']}) should link to {r['targets']} but is plain text")
                continue
            target = os.path.normpath(os.path.join(os.path.dirname(rel), unquote(href.group(1)))).replace("\\", "/")
            want = [unquote(urls[k]) for k in r["targets"] if urls.get(k)]
            if not want:
                res.fail("HARNESS:target-url-unknown", f"no URL for {r['targets']}")
                continue
            if target not in want:
                where = "static-page" if rel.startswith("page/") else rel.split("/")[0]
                res.fail(f"wrong-target:{kind}@{where}", f"{rel}: {r['ref']} (context {r['ctx']}) -> {target}, expected {want}")
    return res
