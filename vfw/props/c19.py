"""C19 - a run touches nothing outside its output directory.

Generated: sandboxes (project directory with sources, pages, media, css / favicon / mathjax
files; decoy files beside and above it, some with names that share a prefix with the output
directory) x placements of output_dir / graph_dir (default, sibling, nested, absolute,
through a symlinked directory, with `..`, inside a source directory, equal to or above a
source directory) x options that copy or write files.  Faults: an audit-hook monitor counts
write-type operations and raises OSError at the k-th one, for sampled (quick) / every
(thorough) k of the run.
Oracles: everything in the sandbox outside the allowed roots is byte-identical after the run
(success, failure or injected fault); every write-type audit event in the sandbox lies under
an allowed root; when a source directory equals or lies under the output directory FORD
raises before any write-type event.
"""
from __future__ import annotations

import hashlib
import os


from vfw import fordapi, fsmon, site
from vfw.choose import Chooser, from_bytes
from vfw.runner import Result

ID = "C19"
LEVEL = "fault_enumeration"
TECHNIQUE = ("fault enumeration: an audit hook injects an OSError at the k-th file-system write operation of a run "
             "(sampled k in the quick tier, every k in the thorough tier) over generated output-directory placements and "
             "copy/write options; oracle = before/after snapshot of the sandbox + audit log of write-type operations")
RULE = ("case = sandbox + placement + options (+ the set of fault positions); non-trivial iff the placement is not the default "
        "or at least one fault is injected; distinct by SHA-1 of files + options")
ASSUMPTIONS = [
    "write-type operations are those visible to sys.addaudithook (open for writing, mkdir, remove, rename, rmdir, "
    "shutil.copyfile/rmtree/copytree, chmod, utime, symlink, link, truncate)",
    "only the sandbox tree is observed (temporary files of the Python runtime elsewhere are not FORD's output)",
    "inputs other than source directories are not placed inside the output directory (outside the property's precondition)",
    "directory mtimes are not compared",
]
SRC = ("module conf\n  !! a module\n  integer :: a\ncontains\n  subroutine run()\n    !! runs\n    call helper()\n  end subroutine run\n"
       "  subroutine helper()\n  end subroutine helper\nend module conf\n")
SRC2 = "program main\n  use conf\n  call run()\nend program main\n"
PLACEMENTS = ["default", "sibling", "nested", "absolute", "symlink", "dotdot", "inside-src", "src-equals-output",
              "src-under-output", "graph-outside", "src-equals-output-via-symlink", "src-under-output-via-symlink",
              "output-is-a-file"]


CWDS = ["proj", "proj", "root", "sibling"]     # where FORD is started from (FORD itself never changes directory)


def budget(tier):
    if tier == "quick":
        return {"examples": 48, "fault_samples": 10, "no_shrink": True}
    return {"examples": 640, "fault_samples": None, "shrink_cap_s": 200, "wall_cap_s": 3300}


def gen_case(ch: Chooser, excl=(), placement=None, cwd=None):
    excl = set(excl)
    placement = placement or ch.choice(PLACEMENTS)
    files = {"proj/src/conf.f90": SRC, "proj/src/main.f90": SRC2, "decoy.txt": "decoy above\n", "sibling/keep.txt": "keep\n",
             "proj/other/data.bin": "other data\n", "proj/doc.bak/old.html": "backup of docs\n", "proj/docs/notes.md": "notes\n",
             "proj/docx": "a file whose name starts like the output directory\n"}
    symlinks = []
    opts = {"project": "P", "src_dir": "./src", "preprocess": False, "parallel": 0}
    allowed = []
    refuse = False
    if placement == "default":
        allowed = ["proj/doc"]
    elif placement == "sibling":
        opts["output_dir"] = "../out"
        allowed = ["out"]
    elif placement == "nested":
        opts["output_dir"] = "./build/html/doc"
        allowed = ["proj/build/html/doc"]
        files["proj/build/keep.txt"] = "a file next to the nested output\n"
    elif placement == "absolute":
        opts["output_dir"] = "<ROOT>/abs_out"
        allowed = ["abs_out"]
    elif placement == "symlink":
        symlinks.append(["proj/link", "../realout"])
        files["realout/existing.txt"] = "lives in the link target\n"
        opts["output_dir"] = "./link/doc"
        allowed = ["realout/doc"]
    elif placement == "dotdot":
        opts["output_dir"] = "./sub/../doc2"
        files["proj/sub/keep.txt"] = "keep\n"
        allowed = ["proj/doc2"]
    elif placement == "inside-src":
        opts["output_dir"] = "./src/doc"
        allowed = ["proj/src/doc"]
    elif placement == "src-equals-output":
        opts["output_dir"] = ch.choice(["./src", "src/", "./other/../src", "<ROOT>/proj/other/../src", "<ROOT>/proj/src"])
        refuse = True
    elif placement == "src-under-output":
        del files["proj/src/conf.f90"], files["proj/src/main.f90"]
        files["proj/code/src/conf.f90"] = SRC
        files["proj/code/src/main.f90"] = SRC2
        files["proj/code/readme.txt"] = "would be deleted with the output directory\n"
        opts["src_dir"] = "./code/src"
        opts["output_dir"] = ch.choice(["./code", "code/.", "<ROOT>/proj/code/src/.."])
        refuse = True
    elif placement == "src-equals-output-via-symlink":
        symlinks.append(["proj/alias", "src"])
        opts["output_dir"] = ch.choice(["./alias", "alias/", "<ROOT>/proj/alias"])
        refuse = True
    elif placement == "src-under-output-via-symlink":
        del files["proj/src/conf.f90"], files["proj/src/main.f90"]
        files["proj/code/src/conf.f90"] = SRC
        files["proj/code/src/main.f90"] = SRC2
        files["proj/code/readme.txt"] = "would be deleted with the output directory\n"
        symlinks.append(["proj/current", "code"])
        opts["src_dir"] = "./code/src"
        opts["output_dir"] = ch.choice(["./current", "../proj/current", "<ROOT>/proj/current", "<ROOT>/sibling/../proj/current"])
        refuse = True
    elif placement == "output-is-a-file":
        # the output "directory" names an existing file (a source file, or any other file): nothing may be deleted
        opts["output_dir"] = ch.choice(["./src/conf.f90", "./other/data.bin", "./docx"])
        refuse = True
    elif placement == "graph-outside":
        allowed = ["proj/doc", "graphs_here"]
        opts["graph"] = True
        opts["graph_dir"] = "../graphs_here"
    feats = []
    if not refuse:
        if ch.bool(1, 2) and "graph_dir" not in opts:
            opts["graph"] = True
            if ch.bool():
                opts["graph_dir"] = "./graphs"
                allowed.append("proj/graphs")
        if ch.bool(1, 2):
            opts["media_dir"] = "./media"
            files["proj/media/logo.png"] = "png\n"
            files["proj/media/sub/deep.dat"] = "deep\n"
        if ch.bool(1, 3):
            opts["css"] = "./style.css"
            files["proj/style.css"] = "body {}\n"
        if ch.bool(1, 3):
            opts["favicon"] = "./fav.png"
            files["proj/fav.png"] = "ico\n"
        if ch.bool(1, 3):
            opts["mathjax_config"] = "./mj/config.js"
            files["proj/mj/config.js"] = "window.MathJax = {};\n"
        if ch.bool(1, 2):
            opts["page_dir"] = "./pages"
            cs = ch.weighted([(3, None), (2, "figs"), (1, "../shared_figs")] +
                             ([(1, "../../escape"), (1, "prefix-escape")] if "copy_subdir_escape" not in excl else []))
            if cs == "prefix-escape":
                # escapes to a directory *beside* the output directory whose name starts like the output directory's
                outbase = os.path.basename(os.path.normpath(allowed[0])) if allowed else "doc"
                cs = f"../../{outbase}-figures"
                opts["page_dir"] = "./docs/user/pages"
                files[f"proj/docs/{outbase}-figures/fig.txt"] = "figure beside the output directory\n"
                files["proj/docs/user/pages/index.md"] = f"title: Pages\ncopy_subdir: {cs}\n\nText.\n"
                files["proj/docs/user/pages/more.md"] = "title: More\n\nmore\n"
                feats.append("copy_subdir-prefix-escape")
            head = "title: Pages\n" + (f"copy_subdir: {cs}\n" if cs else "")
            if "ordered_subpage_escape" not in excl and opts["page_dir"] == "./pages" and ch.bool(1, 4):
                # a sub-page entry that names a file outside the page directory
                head += "ordered_subpage: sub/../../../escaped.md\n"
                files["proj/pages/sub/index.md"] = "title: Sub\n\nsub\n"
                files["escaped.md"] = "title: Escaped\n\na page outside the page directory\n"
                feats.append("ordered_subpage-escape")
            if opts["page_dir"] == "./pages" and "page_symlink" not in excl and ch.bool(1, 4):
                # a sub-directory of the page directory that is a symbolic link to shared documentation elsewhere
                symlinks.append(["proj/pages/common", "../../common-docs"])
                files["common-docs/index.md"] = "title: Common\n\nshared documentation\n"
                files["common-docs/palette.txt"] = "colours\n"
                feats.append("page-subdir-symlink")
            files["proj/pages/index.md"] = head + "\nText.\n"
            files["proj/pages/figs/x.png"] = "fig\n"
            files["proj/pages/more.md"] = "title: More\n\nmore\n"
            files["proj/pages/data.csv"] = "1,2\n"
            if cs == "../shared_figs":
                files["proj/shared_figs/y.png"] = "shared\n"
            if cs == "../../escape":
                files["escape/z.png"] = "escaping copy_subdir\n"
                feats.append("copy_subdir-escape")
        if ch.bool(1, 3):
            opts["externalize"] = True
        if ch.bool(1, 4):
            opts["incl_src"] = False
        if ch.bool(1, 4):
            opts["search"] = False
    fault_seed = ch.int(1000)
    cwd = cwd or ch.choice(CWDS)
    return {"cwd": cwd, "files": files, "symlinks": symlinks, "options": opts, "allowed": allowed, "refuse": refuse,
            "placement": placement, "fault_seed": fault_seed,
            "classes": ["placement:" + placement, "cwd:" + cwd] + ["opt:" + k for k in opts if k in ("graph", "graph_dir", "media_dir", "css",
                        "favicon", "mathjax_config", "page_dir", "externalize")] + feats}


def enumerated(tier, excl):
    """Every placement from every starting directory, other choices from VERIF_SEED."""
    seed = os.environ.get("VERIF_SEED") or "1"
    n = budget(tier)["fault_samples"]
    for placement in PLACEMENTS:
        for cwd in ("proj", "root", "sibling"):
            data = b"".join(hashlib.sha256(f"{seed}|{placement}|{cwd}|{k}".encode()).digest() for k in range(8))
            c = gen_case(Chooser(data), excl, placement=placement, cwd=cwd)
            c["fault_samples"] = min(n, 4) if n else 12
            yield c


def strategy(tier, excl):
    excl = tuple(excl)
    n = budget(tier)["fault_samples"]

    def make(ch):
        c = gen_case(ch, excl)
        c["fault_samples"] = n
        return c
    return from_bytes(make, min_size=40, max_size=200)


def one_run(root, case, fail_at):
    """-> (outcome string, events log, injected)"""
    proj = root / "proj"
    with fsmon.watching(str(root), fail_at) as ctl:
        try:
            cwd = {"proj": None, "root": root, "sibling": root / "sibling"}[case.get("cwd", "proj")]
            site.build_site(proj.parent / "proj", "project.md", cwd=cwd)
            outcome = "ok"
        except SystemExit as e:
            outcome = f"SystemExit: {e}"
        except BaseException as e:      # noqa
            outcome = f"{type(e).__name__}: {str(e)[:200]}"
    return outcome, list(ctl.log), ctl.injected


def check(case) -> Result:
    res = Result(classes=list(case.get("classes", [])))
    res.sample = {"placement": case["placement"], "options": case["options"], "allowed": case["allowed"]}
    res.evaluations = 0
    with fordapi.Sandbox(case["files"], prefix="vfw-c19-") as root:
        root = root.resolve()
        for link, target in case["symlinks"]:
            os.symlink(target, root / link)
        opts = {k: (v.replace("<ROOT>", str(root)) if isinstance(v, str) else v) for k, v in case["options"].items()}
        (root / "proj" / "project.md").write_text(site.project_file(opts, "Front.\n"))
        allowed = [str(root / a) for a in case["allowed"]]
        before = fsmon.snapshot(str(root), exclude=allowed)

        def verify(label, outcome, log, injected):
            after = fsmon.snapshot(str(root), exclude=allowed)
            # (new, empty ancestor directories of an output root are part of creating that root)
            for k in list(after):
                if k not in before and after[k][0] == "dir" and any(fsmon._under(a, str(root / k)) for a in allowed):
                    del after[k]
            if after != before:
                changed = sorted(k for k in set(before) | set(after) if before.get(k) != after.get(k))
                kinds = []
                for k in changed:
                    kinds.append("deleted" if k not in after else ("created" if k not in before else "modified"))
                res.fail(f"outside-changed:{sorted(set(kinds))[0]}:{case['placement']}",
                         f"{label}: outside the output directory {list(zip(changed, kinds))[:6]} (outcome: {outcome})")
            for event, paths in log:
                target = paths[-1] if event in ("os.rename", "os.replace", "shutil.copyfile", "shutil.copytree", "os.symlink",
                                                "os.link", "shutil.move", "shutil.copymode", "shutil.copystat") \
                    and len(paths) > 1 else paths[0]
                real = os.path.join(os.path.realpath(os.path.dirname(target)), os.path.basename(target))
                if event == "os.mkdir" and any(fsmon._under(a, real) for a in allowed):
                    continue        # creating the missing parents of the output directory is part of creating it
                if not any(fsmon._under(real, a) for a in allowed):
                    res.fail(f"write-outside:{event}:{case['placement']}",
                             f"{label}: {event} on {os.path.relpath(real, root)} which is outside {case['allowed']}")
                    break

        outcome, log, injected = one_run(root, case, None)
        res.evaluations += 1
        nevents = len(log)
        if case["refuse"]:
            if outcome == "ok" or not outcome.startswith("ValueError"):
                res.fail(f"not-refused:{case['placement']}", f"source directory inside the output directory was not refused: {outcome}")
            if log:
                res.fail(f"write-before-refusal:{case['placement']}", f"{len(log)} write operations before refusing, first {log[0]}")
            verify("refusal run", outcome, [], None)
            res.nontrivial = True
            return res
        if outcome != "ok":
            res.fail("HARNESS:baseline-run-failed", f"{case['placement']}: {outcome}")
            return res
        verify("fault-free run", outcome, log, None)
        # fault injection at write operation k
        n = case.get("fault_samples")
        if n is None:
            ks = list(range(1, nevents + 1))
        else:
            ch = Chooser(bytes((case["fault_seed"] * 7 + i * 29) % 256 for i in range(64)))
            ks = sorted(set([1, 2, 3, nevents] + [1 + ch.int(max(1, nevents)) for _ in range(n)]))
        for k in ks:
            outcome, log, injected = one_run(root, case, k)
            res.evaluations += 1
            if injected is None:
                continue
            verify(f"fault at write operation {k}/{nevents} ({injected[0]})", outcome, log, injected)
            if res.failures:
                break
        res.classes.append(f"events:{nevents // 50 * 50}+")
        res.nontrivial = case["placement"] != "default" or bool(ks)
    return res
