"""C08 - recorded calls are exactly the user procedures a unit invokes.

Generated: executable parts from a statement grammar over a scope's symbols - user
subroutines and (pure) functions whose names embed keywords, arrays and scalars (local, host,
use-associated), intrinsics, character literals containing call-like text - in every statement
form the property lists.  The call set is known from the expression trees that produced the
text.  Oracle: set(unit.calls) == expected set (entities resolved as in C07 through
vfw.refsem, names for procedures external to the project).
"""
from __future__ import annotations

from vfw import fordapi, refsem, render
from vfw.choose import Chooser, from_bytes
from vfw.props import c06
from vfw.props.c06 import _var
from vfw.runner import Result

ID = "C08"
LEVEL = "exploration"
TECHNIQUE = ("property-based testing: grammar-based generation of executable parts; the expected call set is known "
             "from the expression trees (oracle by construction), resolution through an independent resolver")
RULE = ("case = generated project (a module with procedures + a program) whose executable parts are drawn from the "
        "statement grammar; non-trivial iff some unit has >=3 statement forms and >=1 array reference that looks like a "
        "call; distinct by SHA-1 of the files")
ASSUMPTIONS = [
    "user procedure names are disjoint from ford.intrinsics.INTRINSICS (FORD documents that intrinsics are never shown)",
    "calls through dummy procedures and type-bound procedures are not generated in the core class",
    "gfortran accepts every program behind a reported violation",
]
FORD_OPTS = c06.FORD_OPTS
I = {"base": "integer", "kind": None}
R = {"base": "real", "kind": None}
L = {"base": "logical", "kind": None}

WATCHDOG_S = 60
SUB_NAMES = ["callme", "ifx", "do_it", "write_out", "format_str", "end_it", "sizeof2", "select_one", "where_to",
             "print_all", "stop_it", "allocate_me", "gotox", "call_back", "elseif_x", "then_go"]
FUN_NAMES = ["iff", "whilefn", "casefn", "do_sum", "endfn", "realpart2", "func_a", "callf", "ifunc", "writefn",
             "type_of", "class_of", "use_it"]
ARR_NAMES = ["arr", "calls", "items", "ifs", "vals", "func_tab", "callers", "value", "target", "format_tab", "results"]


def budget(tier):
    if tier == "quick":
        return {"examples": 6400, "shrink_cap_s": 40}
    return {"examples": 96000, "shrink_cap_s": 240, "wall_cap_s": 3000}


class Syms:
    """What an executable part may reference, with the procedures' identities."""
    def __init__(self):
        self.subs = {}      # name -> nargs
        self.funs = {}      # name -> nargs   (integer pure functions of integer args)
        self.gens = {}      # generic subroutine names -> nargs
        self.ext_subs = []  # subroutines external to the project (implicit interface)
        self.arrs = []      # integer rank-1 arrays (size 10)
        self.ints = []
        self.reals = []
        self.flags = []
        self.strs = []
        self.aarrs = []     # allocatable integer arrays
        self.recs = []      # variables of type(rec_t) (components n, tab(10))
        self.is_program = False
        self.assoc_pool = []
        self.objs = []      # variables of type(outer_t): obj%mid (mid_t) %inner (inner_t), bindings `run`


class ExecGen:
    def __init__(self, ch, syms, excl=()):
        self.ch = ch
        self.s = syms
        self.excl = set(excl)
        self.calls = set()        # names of user procedures referenced
        self.forms = set()
        self.arrayref = False
        self.labels = 100
        self.assoc = []           # stack of associate names (integers)
        self.tb_assoc = []        # stack of (associate name, type) for component selectors

    # ---- expressions
    def iexpr(self, depth=0):
        ch, s = self.ch, self.s
        opts = [(3, "lit"), (3, "var")]
        if s.arrs:
            opts.append((3, "arr"))
        if s.funs and depth < 3:
            opts.append((4, "fun"))
        if depth < 3:
            opts += [(2, "bin"), (1, "paren"), (2, "intr")]
        if getattr(s, "chain_objs", None):
            opts.append((2, "chain"))
        k = ch.weighted(opts)
        if k == "chain":
            # a long component chain, with or without blanks around `%`; nothing in it is a call
            sep = ch.choice(["%", " % ", "% ", " %"])
            # (long chains only at the top of an expression and with blanks, so that the line can be continued)
            n = ch.choice([1, 3, 8, 13]) if depth == 0 else ch.choice([1, 2])
            if n > 3 and sep == "%":
                sep = " % "
            return sep.join([ch.choice(s.chain_objs)] + ["next"] * n + ["v"])
        if k == "lit":
            return ch.choice(["1", "2", "3", "10"])
        if k == "var":
            pool = s.ints + self.assoc
            return ch.choice(pool)
        if k == "arr":
            self.arrayref = True
            if getattr(s, "recs", None) and ch.bool(1, 3):
                r = ch.choice(s.recs)
                form = ch.int(3)
                if form == 0:
                    return f"{r}%n"
                if form == 1:
                    return f"{r}%tab({self.iexpr(depth + 1)})"
                return f"{r} % tab ({self.iexpr(depth + 1)})"
            sp = " " if ch.bool(1, 6) else ""
            return f"{ch.choice(s.arrs)}{sp}({self.iexpr(depth + 1)})"
        if k == "fun":
            # (inside FORALL only pure functions may be referenced: the external ones have an implicit interface)
            f = ch.choice(sorted(n for n in s.funs if not (getattr(self, "pure_only", False) and n.startswith("extfun_"))))
            self.calls.add(f)
            args = ", ".join(self.iexpr(depth + 1) for _ in range(s.funs[f]))
            sp = " " if ch.bool(1, 5) else ""
            return f"{f}{sp}({args})"
        if k == "bin":
            return f"{self.iexpr(depth + 1)} {ch.choice(['+', '-', '*'])} {self.iexpr(depth + 1)}"
        if k == "paren":
            return f"({self.iexpr(depth + 1)})"
        intr = ch.choice(["abs", "max", "min", "mod", "size", "int", "len_trim"])
        if intr == "size" and s.arrs:
            return f"size({ch.choice(s.arrs)})"
        if intr == "len_trim" and s.strs:
            return f"len_trim({ch.choice(s.strs)})"
        if intr in ("max", "min", "mod"):
            return f"{intr}({self.iexpr(depth + 1)}, {self.iexpr(depth + 1)})"
        if intr == "int" and s.reals:
            return f"int({ch.choice(s.reals)})"
        return f"abs({self.iexpr(depth + 1)})"

    def lexpr(self, depth=0):
        ch = self.ch
        k = ch.weighted([(4, "rel"), (1, "flag"), (1, "not"), (1, "and")]) if depth < 2 else "rel"
        if k == "rel":
            op = ch.choice([">", "<", "==", "/=", ">=", ".gt.", ".eq.", ".le."])
            return f"{self.iexpr(depth + 1)} {op} {self.iexpr(depth + 1)}"
        if k == "flag" and self.s.flags:
            return ch.choice(self.s.flags)
        if k == "not":
            return f".not. ({self.lexpr(depth + 1)})"
        return f"{self.lexpr(depth + 1)} .and. {self.lexpr(depth + 1)}"

    def literal(self):
        return self.ch.choice(["'call nothing(1)'", '"x = fake(2)"', "'it''s f(x)'", "'if (a) call b(c)'", '"call foo"',
                               "'end subroutine'", "'plain'", '"can\'t stop"', "'say \"hi\"'"])

    # ---- statements
    # chains over outer_t -> mid (mid_t) -> inner (inner_t); both mid_t and inner_t bind `run`
    def tb_call(self):
        ch, s = self.ch, self.s
        cands = []
        for o in s.objs:
            cands += [(f"{o}%mid", "mid_t"), (f"{o}%mid%inner", "inner_t")]
        for nm, ty in self.tb_assoc:
            cands.append((nm, ty))
            if ty == "mid_t":
                cands.append((f"{nm}%inner", "inner_t"))
        chain, ty = ch.choice(cands)
        # (a binding may be named like an intrinsic procedure: `call v%size()` is a call of the binding)
        bname = ch.choice(["run", "run", "size", "write"]) if "intrinsic_named_bindings" not in self.excl else "run"
        self.calls.add(f"{ty}%{bname}")
        self.forms.add("type-bound-call")
        sp = ch.choice(["%", " % "])
        return "call " + chain.replace("%", sp) + sp + bname + ch.choice(["()", "", " ()"])

    def call_stmt(self):
        ch, s = self.ch, self.s
        if (s.objs or self.tb_assoc) and "type_bound" not in self.excl and ch.bool(1, 4):
            return self.tb_call()
        pools = [("sub", sorted(s.subs))] if s.subs else []
        if s.gens:
            pools.append(("gen", sorted(s.gens)))
        if s.ext_subs:
            pools.append(("ext", s.ext_subs))
        kind, pool = ch.choice(pools)
        n = ch.choice(pool)
        self.calls.add(n)
        nargs = s.subs.get(n, s.gens.get(n, 1)) if kind != "ext" else 1
        if nargs == 0:
            return f"call {n}" + ch.choice(["", "()", " ()"])
        if kind == "sub" and ch.bool(1, 4):
            args = ", ".join(f"{n}_a{i}={self.iexpr(1)}" for i in range(nargs))
            self.forms.add("keyword-args")
        else:
            args = ", ".join(self.iexpr(1) for _ in range(nargs))
        sp = " " if ch.bool(1, 5) else ""
        return f"call {n}{sp}({args})"

    def simple(self, no_if=False):
        """One non-construct action statement."""
        ch, s = self.ch, self.s
        k = ch.weighted([(4, "assign"), (4, "call"), (2, "arrassign"), (2, "print"), (1, "write"), (1, "writestr"),
                         (1, "alloc"), (1, "where1"), (1, "forall1"), (1, "continue"), (1, "readstr"), (1, "concat"),
                         (1, "stop")])
        self.forms.add(k)
        if k == "assign":
            return f"{ch.choice(s.ints)} = {self.iexpr()}"
        if k == "call":
            return self.call_stmt()
        if k == "arrassign" and s.arrs:
            self.arrayref = True
            a = ch.choice(s.arrs)
            form = ch.choice(["elem", "elem-blank", "slice", "constructor", "constructor-old"])
            self.forms.add("arr:" + form)
            if form == "elem":
                return f"{a}({self.iexpr(1)}) = {self.iexpr()}"
            if form == "elem-blank":
                return f"{a} ({self.iexpr(1)}) = {self.iexpr()}"
            if form == "slice":
                return f"{a}({self.iexpr(1)}:{self.iexpr(1)}) = {self.iexpr()}"
            if form == "constructor":
                return f"{a}(1:2) = [{self.iexpr(1)}, {self.iexpr(1)}]"
            return f"{a}(1:2) = (/ {self.iexpr(1)}, {self.iexpr(1)} /)"
        if k == "print":
            items = [self.literal() if ch.bool(1, 2) else self.iexpr() for _ in range(ch.count(1, 3))]
            return "print *, " + ", ".join(items)
        if k == "write":
            return f"write (*, *) {self.iexpr()}, {self.literal()}"
        if k == "writestr" and s.strs:
            return f"write ({ch.choice(s.strs)}, '(i0)') {self.iexpr()}"
        if k == "alloc" and s.aarrs:
            a = ch.choice(s.aarrs)
            if no_if:
                return f"deallocate ({a})"
            return f"if (.not. allocated({a})) allocate ({a}({self.iexpr(1)}))"
        if k == "where1" and s.arrs:
            a = ch.choice(s.arrs)
            return f"where ({a} > {self.iexpr(1)}) {a} = {self.iexpr(1)}"
        if k == "forall1" and s.arrs:
            a = ch.choice(s.arrs)
            self.pure_only = True
            try:
                return f"forall (idx_fa = 1:10) {a}(idx_fa) = {self.iexpr(1)}"
            finally:
                self.pure_only = False
        if k == "readstr" and s.strs:
            return f"read ({ch.choice(s.strs)}, *) {ch.choice(s.ints)}"
        if k == "concat" and s.strs:
            st = ch.choice(s.strs)
            return f"{st} = {self.literal()} // trim({st})"
        if k == "stop":
            if no_if:
                return "continue"
            tail = ch.choice(["stop", "error stop 'call f(1)'", "return"])
            if tail == "return" and getattr(s, "is_program", False):
                tail = "stop"
            return f"if ({self.lexpr()}) {tail}"
        return "continue"

    def block(self, depth=0):
        """-> list of statements"""
        ch = self.ch
        out = []
        for _ in range(ch.count(1, 3 if depth else 5)):
            k = ch.weighted([(8, "simple"), (2, "if1"), (2, "ifthen"), (1, "dowhile"), (1, "do"), (1, "select"),
                             (1, "associate"), (1, "blockc"), (1, "labelled"), (1, "cgoto"), (1, "format"),
                             (1, "semi"), (1, "wherec"), (1, "doc")]) if depth < 2 else "simple"
            self.forms.add(k)
            if k == "doc":
                # a documentation comment among the executable statements: text, not code (the marker may be configured);
                # it follows an executable statement (after the last declaration it would document that one)
                out.append(self.simple())
                out.append({"text": "!" + getattr(self.s, "docmark", "!") + " formerly: call zz_doc_name(1); zz_doc_fun(2)",
                            "nobreak": True})
                out.append(self.simple())
            elif k == "simple":
                out.append(self.simple())
            elif k == "if1":
                out.append(f"if ({self.lexpr()}) {self.simple(no_if=True)}")
            elif k == "ifthen":
                out.append(f"if ({self.lexpr()}) then")
                out += self.block(depth + 1)
                if ch.bool(1, 2):
                    out.append(ch.choice(["else if", "elseif"]) + f" ({self.lexpr()}) then")
                    out += self.block(depth + 1)
                if ch.bool(1, 2):
                    out.append("else")
                    out += self.block(depth + 1)
                out.append(ch.choice(["end if", "endif"]))
            elif k == "dowhile":
                out.append(f"do while ({self.lexpr()})")
                out += self.block(depth + 1)
                out.append(ch.choice(["end do", "enddo"]))
            elif k == "do":
                out.append(f"do idx_do{depth} = {self.iexpr(1)}, {self.iexpr(1)}")
                out += self.block(depth + 1)
                out.append("end do")
            elif k == "select":
                out.append(f"select case ({self.iexpr()})")
                out.append("case (1)")
                out += self.block(depth + 1)
                out.append("case (2:3)")
                out.append(self.simple())
                out.append("case default")
                out.append(self.simple())
                out.append("end select")
            elif k == "associate" and (self.s.objs or self.tb_assoc) and "type_bound" not in self.excl and ch.bool(1, 2):
                # selector is an object/component; the associate name may shadow an outer one
                cands = [(f"{o}%mid", "mid_t") for o in self.s.objs]
                cands += [(f"{nm_}%inner", "inner_t") for nm_, ty_ in self.tb_assoc if ty_ == "mid_t"]
                inner_cands = [c for c in cands if c[1] == "inner_t" and "%inner" in c[0] and c[0].split("%")[0] in ("p", "q")]
                if inner_cands and ch.bool(2, 3):
                    sel, ty = ch.choice(inner_cands)
                    nm = sel.split("%")[0]      # associate (p => p%inner): the new p shadows the outer p
                else:
                    sel, ty = ch.choice(cands)
                    nm = ch.choice(["p", "q"])      # deliberately reused: inner associations shadow outer ones
                if any(sel.startswith(x + "%") for x, _ in self.tb_assoc if x == nm):
                    self.forms.add("associate-shadows-itself")
                # (names are case-insensitive: the associate name may be spelt with capitals where it is introduced)
                spelt = nm.upper() if "assoc_case" not in self.excl and ch.bool(1, 3) else nm
                out.append(f"associate ({spelt} => {sel})")
                self.tb_assoc.append((nm, ty))
                saved = [x for x in self.tb_assoc]
                # names hidden by this association must not be used as if they had their outer meaning
                self.tb_assoc = [x for x in self.tb_assoc[:-1] if x[0] != nm] + [(nm, ty)]
                # a call through the new name, then anything else
                self.calls.add(f"{ty}%run")
                self.forms.add("type-bound-call")
                out.append(f"call {nm}%run()")
                out += self.block(depth + 1)
                self.tb_assoc = saved[:-1]
                out.append("end associate")
            elif k == "associate":
                nm = f"asc{len(self.assoc)}_{ch.int(3)}"
                pool = [x for x in getattr(self.s, "assoc_pool", []) if x not in self.assoc]
                if pool and ch.bool(2, 3):
                    nm = ch.choice(pool)
                sel = self.iexpr()
                out.append(f"associate ({nm} => {sel})")
                self.assoc.append(nm)
                out += self.block(depth + 1)
                self.assoc.pop()
                out.append("end associate")
            elif k == "wherec" and self.s.arrs:
                a = ch.choice(self.s.arrs)
                out.append(f"where ({a} > {self.iexpr(1)})")
                out.append(f"{a} = {self.iexpr(1)}")
                out.append(ch.choice(["elsewhere", "else where"]))
                out.append(f"{a} = {self.iexpr(1)}")
                out.append(ch.choice(["end where", "endwhere"]))
            elif k == "blockc":
                out.append("block")
                if "block_locals" not in self.excl and ch.bool(1, 2):
                    # an array of the construct's own: references to it are no calls
                    self.nblk = getattr(self, "nblk", 0) + 1
                    ba = f"blk_arr{self.nblk}"
                    out.append({"text": f"integer :: {ba}(4)", "nobreak": True})
                    out.append(f"{ba}(1) = {self.iexpr(1)}")
                    out.append(f"{ch.choice(self.s.ints)} = {ba}(2) + {ba} (3)")
                    self.forms.add("block-local-array")
                out += self.block(depth + 1)
                out.append("end block")
            elif k == "labelled":
                self.labels += 10
                out.append({"text": self.simple(), "label": str(self.labels)})
            elif k == "cgoto":
                l1, l2 = self.labels + 10, self.labels + 20
                self.labels += 20
                out.append(ch.choice(["go to", "goto"]) + f" ({l1}, {l2}) {ch.choice(self.s.ints)}")
                out.append({"text": "continue", "label": str(l1)})
                out.append({"text": self.simple(), "label": str(l2)})
            elif k == "format":
                self.labels += 10
                out.append({"text": f"format{ch.choice([' ', ''])}({ch.choice(['i5', '2(i5, 1x)', '3(i2, a1)'])}, {self.literal()})", "label": str(self.labels), "nobreak": True})
                out.append(f"print {self.labels}, {self.iexpr()}")
            elif k == "semi":
                a_, b_ = self.simple(), self.simple()
                if len(a_) + len(b_) < 90:
                    out.append({"text": a_ + "; " + b_, "nobreak": True})
                else:
                    out += [a_, b_]
        return out


def mkfun(name, nargs):
    args = [f"{name}_a{i}" for i in range(nargs)]
    return {"k": "function", "name": name, "args": args, "prefix": ["pure"], "rettype": dict(I),
            "decls": [_var(a, I, intent="in") for a in args], "exec": [f"{name} = 1"], "procs": [], "uses": [], "doc": None}


def mksub(name, nargs, **kw):
    args = [f"{name}_a{i}" for i in range(nargs)]
    d = {"k": "subroutine", "name": name, "args": args, "prefix": [],
         "decls": [_var(a, I, intent="in") for a in args], "exec": [], "procs": [], "uses": [], "doc": None}
    d.update(kw)
    return d


def locals_for(scope, syms, ch, tag):
    """Declare local data in `scope` and register it in a copy of syms."""
    import copy
    s = copy.deepcopy(syms)
    for base, lst, ts in (("i", s.ints, I), ("k", s.ints, I), ("x", s.reals, R), ("flag", s.flags, L)):
        n = f"{base}_{tag}"
        scope["decls"].append(_var(n, ts))
        lst.append(n)
    scope["decls"].append(_var("idx_fa", I))
    for dd in range(3):
        scope["decls"].append(_var(f"idx_do{dd}", I))
    st = f"str_{tag}"
    scope["decls"].append(_var(st, {"base": "character", "len": "20", "kind": None}))
    s.strs.append(st)
    for _ in range(ch.count(1, 2)):
        pool = [a for a in ARR_NAMES if a not in s.arrs]
        if not pool:
            break
        a = ch.choice(pool)
        d = _var(a, I)
        d["dimattr"] = "(10)"
        scope["decls"].append(d)
        s.arrs.append(a)
    if ch.bool(1, 2):
        rn = f"rec_{tag}"
        scope["decls"].append(_var(rn, {"base": "type", "proto": "rec_t"}))
        s.recs = getattr(s, "recs", []) + [rn]
    if ch.bool(1, 2) and not getattr(s, "no_objs", False):
        on = f"obj_{tag}"
        if "intrinsic_named_objects" not in getattr(s, "excl", ()) and ch.bool(1, 3):
            # an object named like an intrinsic procedure / a statement keyword (Fortran has no reserved words)
            on = ch.choice(["count", "data", "result", "index", "time"])
        scope["decls"].append(_var(on, {"base": "type", "proto": "outer_t"}))
        s.objs = s.objs + [on]
    if ch.bool(1, 3) and "typed_external" not in getattr(s, "excl", ()):
        # a function external to the project, declared by a type declaration with the EXTERNAL attribute
        fn = f"extfun_{tag}"
        scope["decls"].append(dict(_var(fn, I, attrs=["external"]), no_stmt=True))
        s.funs[fn] = 1
    if getattr(s, "chains", False) and ch.bool(1, 3):
        cn = f"chain_{tag}"
        scope["decls"].append(_var(cn, {"base": "type", "proto": "node_t"}))
        s.chain_objs = getattr(s, "chain_objs", []) + [cn]
    aa = f"dyn_{tag}"
    d = _var(aa, I, attrs=["allocatable"])
    d["dimattr"] = "(:)"
    scope["decls"].append(d)
    s.aarrs.append(aa)
    return s


DOCMARKS = [None, None, {"docmark": "!>", "predocmark": "!<", "docmark_alt": "!*", "predocmark_alt": "!|"}]


def gen_case(ch: Chooser, excl=()):
    marks = ch.choice(DOCMARKS) if "multichar_docmark" not in excl else None
    proj, refs, feats, nontrivial = gen_model(ch, excl, docmark=(marks or {}).get("docmark", "!"))
    text, used = render.render_project(proj, ch, features={"comments": True, "literal_split": "literal_split" not in excl})
    return {"files": text, "refs": refs, "stub": "", "classes": sorted(feats) + (["docmark:multi-character"] if marks else []),
            "nontrivial": nontrivial, "n_orders": 1, "order_seed": 0, "marks": marks}


def gen_model(ch: Chooser, excl=(), assoc_from_unused_procs=False, assoc_pool=None, docmark="!"):
    feats = set()
    # module `lib` with procedures (and host data), used by a second module and a program
    lib = {"k": "module", "name": "lib", "uses": [], "default_access": None, "access_pos": "early", "decls": [],
           "procs": [], "doc": None}
    syms = Syms()
    syms.docmark = docmark
    syms.no_objs = "type_bound" in excl
    sub_pool, fun_pool = ch.shuffle(SUB_NAMES), ch.shuffle(FUN_NAMES)
    for _ in range(ch.count(1, 3)):
        n = sub_pool.pop()
        syms.subs[n] = ch.count(0, 2)
        lib["procs"].append(mksub(n, syms.subs[n]))
    for _ in range(ch.count(1, 3)):
        n = fun_pool.pop()
        syms.funs[n] = ch.count(1, 2)
        lib["procs"].append(mkfun(n, syms.funs[n]))
    if ch.bool(1, 2):
        g, sp = sub_pool.pop(), "spec_" + str(ch.int(9))
        lib["procs"].append(mksub(sp, 1, access="private", access_how="stmt_after"))
        lib["decls"].append({"d": "interface", "form": "generic", "name": g, "modprocs": [sp], "bodies": [], "doc": None,
                             "access": None})
        syms.gens[g] = 1
        feats.add("generic")
    # host array in the module
    if ch.bool(1, 2):
        a = ch.choice(ARR_NAMES)
        d = _var(a, I)
        d["dimattr"] = "(10)"
        lib["decls"].append(d)
        syms.arrs.append(a)
        feats.add("host-array")
    lib["decls"].append({"d": "type", "name": "rec_t", "abstract": False, "extends": None, "access": None,
                         "access_how": "attr", "sequence": False, "private_comps": False,
                         "comps": [_var("n", I), dict(_var("tab", I), dimattr="(10)")], "private_binds": False,
                         "binds": [], "finals": [], "doc": None})
    if "long_chains" not in excl:
        # a self-referential type: component chains of any length are valid
        lib["decls"].append({"d": "type", "name": "node_t", "abstract": False, "extends": None, "access": None,
                             "access_how": "attr", "sequence": False, "private_comps": False,
                             "comps": [dict(_var("next", {"base": "type", "proto": "node_t"}, attrs=["pointer"]), no_stmt=True),
                                       _var("v", I)],
                             "private_binds": False, "binds": [], "finals": [], "doc": None})
        syms.chains = True

    def bound_type(name, comps, impl):
        return {"d": "type", "name": name, "abstract": False, "extends": None, "access": None, "access_how": "attr",
                "sequence": False, "private_comps": False, "comps": comps, "private_binds": False, "finals": [], "doc": None,
                "binds": [{"name": b_, "target": impl, "generic": False, "deferred": False, "iface": None, "attrs": [],
                           "access": None, "doc": None} for b_ in ("run", "size", "write")]}
    if "type_bound" not in excl:
        lib["decls"].append(bound_type("inner_t", [_var("n", I)], "inner_run"))
        lib["decls"].append(bound_type("mid_t", [_var("inner", {"base": "type", "proto": "inner_t"})], "mid_run"))
        lib["decls"].append({"d": "type", "name": "outer_t", "abstract": False, "extends": None, "access": None,
                             "access_how": "attr", "sequence": False, "private_comps": False,
                             "comps": [_var("mid", {"base": "type", "proto": "mid_t"})], "private_binds": False,
                             "binds": [], "finals": [], "doc": None})
        for tname, impl in (("inner_t", "inner_run"), ("mid_t", "mid_run")):
            lib["procs"].append(mksub(impl, 0, args=["self"], decls=[dict(_var("self", {"base": "class", "proto": tname}, intent="inout"))]))
    hi = "lib_counter"
    lib["decls"].append(_var(hi, I))
    syms.ints.append(hi)
    if ch.bool(1, 2):
        syms.ext_subs = [ch.choice(["ext_solver", "legacy_io", "callext"])]
        feats.add("external-subroutine")
    if assoc_pool:
        syms.assoc_pool = list(assoc_pool)
    elif assoc_from_unused_procs:
        # associate names that are procedure names *elsewhere* (not accessible here)
        syms.assoc_pool = [n for n in SUB_NAMES + FUN_NAMES if n not in syms.subs and n not in syms.funs
                           and n not in syms.gens][:6]
    files = [{"path": "src/lib.f90", "form": "free", "units": [lib], "doc": None}]
    expected = {}      # scope path -> (node, names called)
    units = []
    # callers inside the module (host association), with internal procedures
    for ci in range(ch.count(0, 2)):
        p = mksub(f"worker{ci}", 0)
        s_here = locals_for(p, syms, ch, f"w{ci}")
        # an internal function and subroutine, visible only here
        if ch.bool(1, 2):
            fn = fun_pool.pop()
            p["procs"].append(mkfun(fn, 1))
            s_here.funs[fn] = 1
            feats.add("internal-function")
        if ch.bool(1, 3):
            sn = sub_pool.pop()
            inner = mksub(sn, 0)
            s_in = locals_for(inner, s_here, ch, f"w{ci}in")
            s_in.subs = {k: v for k, v in s_here.subs.items()}
            g = ExecGen(ch, s_in, excl)
            inner["exec"] = g.block()
            units.append((["lib", p["name"], sn], inner, g))
            p["procs"].append(inner)
            s_here.subs[sn] = 0
            feats.add("internal-subroutine")
        g = ExecGen(ch, s_here, excl)
        p["exec"] = g.block()
        units.append((["lib", p["name"]], p, g))
        lib["procs"].append(p)
    # program using the module
    prog = {"k": "program", "name": "main", "uses": [{"module": "lib", "only": None, "renames": [], "nature": None}],
            "decls": [], "exec": [], "procs": [], "doc": None}
    s_prog = locals_for(prog, syms, ch, "p")
    s_prog.is_program = True
    g = ExecGen(ch, s_prog, excl)
    prog["exec"] = g.block()
    units.append((["main"], prog, g))
    files.append({"path": "src/main.f90", "form": "free", "units": [prog], "doc": None})
    # external function with an interface in the program? (extended)
    proj = {"files": files}
    sem = refsem.Sem(proj)
    refs = []
    nontrivial = False
    for path, node, g in units:
        s = sem.scopes[tuple(path)]
        exp = []
        for n in sorted(g.calls):
            if "%" in n:
                exp.append("lib/" + n.replace("%", "/"))
                continue
            ent = sem.resolve(s, n, ["proc"])
            exp.append(ent or "unresolved:" + n.lower())
        refs.append({"scope": path, "ifbody": None, "slot": "calls", "at": "calls", "name": sorted(g.calls),
                     "expect": sorted(set(exp)), "forms": sorted(g.forms)})
        feats.update("form:" + f for f in g.forms)
        if len(g.forms) >= 3 and g.arrayref:
            nontrivial = True
    return proj, refs, feats, nontrivial


def strategy(tier, excl):
    excl = tuple(excl)
    return from_bytes(lambda ch: gen_case(ch, excl), min_size=300, max_size=2500)


class Timeout(BaseException):
    """Raised by the watchdog (not an Exception: FORD would report it as a parse error of the file and carry on)."""


def _alarm(signum, frame):
    raise Timeout()


def check(case) -> Result:
    import signal
    old = signal.signal(signal.SIGALRM, _alarm)
    signal.alarm(WATCHDOG_S)
    try:
        return _check(case)
    except Timeout:
        res = Result(nontrivial=case.get("nontrivial", False), classes=list(case.get("classes", [])))
        res.fail("hang", f"FORD did not finish reading the project within {WATCHDOG_S} s")
        return res
    finally:
        signal.alarm(0)
        signal.signal(signal.SIGALRM, old)


def _check(case) -> Result:
    res = Result(nontrivial=case.get("nontrivial", False), classes=list(case.get("classes", [])))
    res.sample = {"files": case["files"], "expected_calls": [(r["scope"], r["expect"]) for r in case["refs"]]}
    try:
        with fordapi.Sandbox(case["files"], prefix="vfw-c08-") as root:
            project, out = fordapi.parse_project(root, **dict(FORD_OPTS, **(case.get("marks") or {})))
            for r in case["refs"]:
                s = c06.find_scope(project, r["scope"])
                if s is None:
                    res.fail("scope-missing", f"scope {'/'.join(r['scope'])} not found in FORD's tree")
                    continue
                obs = []
                for c in getattr(s, "calls", []):
                    obs.append("unresolved:" + c.lower() if isinstance(c, str) else refsem.ford_ident(c))
                exp = r["expect"]
                dup = sorted(x for x in set(obs) if obs.count(x) > 1)
                extra = sorted(set(obs) - set(exp))
                missing = sorted(set(exp) - set(obs))
                where = "/".join(r["scope"])
                if extra:
                    kind = "unresolved-name" if all(x.startswith("unresolved:") for x in extra) else "entity"
                    res.fail(f"spurious-call:{kind}", f"{where}: recorded but never invoked: {extra}; expected {exp}")
                if missing:
                    res.fail("missing-call", f"{where}: invoked but not recorded: {missing}; recorded {sorted(obs)}")
                if dup:
                    res.fail("duplicate-call", f"{where}: recorded more than once: {dup}")
    except Exception as e:
        res.fail(fordapi.exception_signature(e), f"{type(e).__name__}: {e}")
    if res.failures:
        ok, err = fordapi.gfortran_check(case["files"])
        if not ok:
            res.failures = []
            res.fail("HARNESS:gfortran-rejects-generated-program", err[-700:])
    return res
