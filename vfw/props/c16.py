"""C16 - links into an externalised project hit the right pages of that project.

Generated: pairs of projects.  A: 1-3 modules with default public / private accessibility,
PUBLIC / PRIVATE attributes and statements, variables, derived types (components, extension,
type-bound procedures), subroutines, functions, generic and abstract interfaces, modules
using each other (re-export); built with `externalize: true` (optionally first without, or
with another `display`).  B: modules that USE A's modules, extend / contain / declare
variables of A's types, call A's subroutines, functions, generics and type-bound procedures,
and name A's entities in [[...]] references (plain, qualified `module:child`, `type:binding`),
also names that are private in A; B may define a module or an entity with the name of one
of A's.  B lists A as `external:` by relative path, absolute path, or http URL (a local
HTTP server; with / without trailing slash; different path depths).  Histories: modules.json
deleted, truncated, replaced by an HTML error page, by JSON of the wrong shape; A's output
directory missing; server answering 404 / refusing the connection.

Oracles: (1) modules.json lists exactly A's modules and, per module, exactly the public
entities by the standard's accessibility rules (computed from the model); (2) every
reference B makes to a public entity of A is a link on the expected page of B whose target
exists in A's output, defines the fragment, and carries the entity's tracer word; (3) every
link that leaves B's output lands on the page/anchor of a public entity of A; names that are
private in A are not linked; (4) B's own entities win name clashes; (5) with an unusable
description the run of B completes, B's own pages are there and no link leaves B.
"""
from __future__ import annotations

import functools
import http.server
import json
import os
import re
import shutil
import subprocess
import tempfile
import threading
import urllib.request
from pathlib import Path
from urllib.parse import unquote, urlsplit

from vfw import fordapi, site
from vfw.choose import Chooser, from_bytes
from vfw.runner import Result

ID = "C16"
LEVEL = "exploration"
TECHNIQUE = ("property-based testing over project pairs and build histories: reference export sets from the model, "
             "round-trip export -> import -> link targets checked in A's real output (files, anchors, tracer words), "
             "local HTTP server for remote externals, fault variants of modules.json")
RULE = ("case = (A, B, how B names A, history); non-trivial iff B refers to >= 3 kinds of A's entities and the case has a "
        "name clash, a private-in-A name, a remote URL or a damaged description; distinct by SHA-1 of files + history")
ASSUMPTIONS = [
    "page addresses of A follow FORD's documented layout <kind>/<name>.html (#variable-<name>, #boundprocedure-<name>); "
    "all names in A are unique so no disambiguating suffix is involved; each target is additionally required to exist in "
    "A's real output and to carry the entity's tracer word",
    "an unqualified [[name]] is used for modules, types, procedures and interfaces only (variables and bindings need "
    "`parent:child`, as in FORD's documentation)",
    "same-kind clashes only (module/module, type/type, procedure/procedure)",
]


def budget(tier):
    if tier == "quick":
        return {"examples": 480, "shrink_cap_s": 60}
    return {"examples": 3200, "shrink_cap_s": 280, "wall_cap_s": 3300}


# ----------------------------------------------------------------------------- project A
def gen_A(ch: Chooser, excl=()):
    n = [0]

    def tracer():
        n[0] += 1
        return f"zq{n[0]}x16w0"

    mods = []
    k = {"v": 0, "t": 0, "s": 0, "f": 0, "g": 0, "i": 0, "b": 0}

    def nm(c, prefix):
        k[c] += 1
        return f"{prefix}{k[c] - 1}"

    for i in range(ch.count(1, 3)):
        m = {"name": f"amod{i}", "default": ch.choice(["public", "public", "private"]), "uses": [j for j in range(i) if ch.bool(1, 2)],
             "ents": [], "tracer": tracer()}
        types_here = []
        for _ in range(ch.count(1, 4)):
            kind = ch.choice(["var", "type", "sub", "fun", "gen", "absint", "type", "sub"])
            acc = ch.choice([None, None, "public", "private"])
            how = ch.choice(["attr", "stmt"])
            if kind in ("sub", "fun"):
                how = "stmt"                 # (procedures have no accessibility attribute)
            e = {"k": kind, "access": acc, "how": how, "tracer": tracer()}
            if kind == "var":
                e["name"] = nm("v", "avar")
            elif kind == "type":
                e["name"] = nm("t", "atype")
                e["comps"] = [f"{e['name']}_c{c}" for c in range(ch.count(0, 2))]
                parents = types_here
                if "private_parent_binding" in excl:
                    # known finding F-C16-5: bindings inherited from a parent type that A does not display
                    parents = [t for t in types_here if (t["access"] or m["default"]) == "public" or not t["bound"]]
                e["extends"] = ch.choice(parents)["name"] if (parents and ch.bool(1, 3)) else None
                e["bound"] = None
                if ch.bool(1, 2):
                    e["bound"] = {"name": nm("b", "abind"), "target": f"{e['name']}_impl", "tracer": tracer()}
                types_here.append(e)
            elif kind == "sub":
                e["name"] = nm("s", "asub")
            elif kind == "fun":
                e["name"] = nm("f", "afun")
            elif kind == "gen":
                e["name"] = nm("g", "agen")
            elif kind == "absint":
                e["name"] = nm("i", "aabs")
            m["ents"].append(e)
        mods.append(m)
    # a facade: a module that re-exports entities of a module it uses under other names
    if "renamed_reexport" not in excl:
        for i, m in enumerate(mods):
            m["renames"] = {}
            for j in m["uses"]:
                pub = [e for e in mods[j]["ents"] if effective(mods[j], e) == "public" and e["k"] in ("type", "sub", "fun")]
                if pub and ch.bool(1, 3):
                    picked = ch.shuffle(pub)[: ch.count(1, 2)]
                    m["renames"][str(j)] = [[f"re_{e['name']}", e["name"]] for e in picked]
    return mods


def effective(m, e):
    return e["access"] or m["default"]


def exports(mods, i, cache=None):
    """name -> (kind, home module index, entity) for everything accessible by USE of module i (F2008 5.3.2, 11.2.2)."""
    cache = {} if cache is None else cache
    if i in cache:
        return cache[i]
    m = mods[i]
    out = {}
    for j in m["uses"]:
        X = exports(mods, j, cache)
        ren = (m.get("renames") or {}).get(str(j))
        if ren:
            # `use amodJ, only: local => remote`: only these, under their local names
            X = {loc: X[rem] for loc, rem in ren if rem in X}
        for name, v in X.items():
            if m["default"] == "public":        # imported entities have the default accessibility (no explicit lists for them)
                out[name] = v
    for e in m["ents"]:
        if effective(m, e) == "public":
            out[e["name"]] = (e["k"], i, e)
        if m["default"] == "public":
            # specific procedures and binding targets are ordinary module procedures with the default accessibility
            for helper in helpers(e):
                out[helper] = ("helper", i, {"name": helper, "tracer": None, "k": "helper"})
    cache[i] = out
    return out


def helpers(e):
    if e["k"] == "gen":
        return [e["name"] + "_i", e["name"] + "_r"]
    if e["k"] == "type" and e["bound"]:
        return [e["bound"]["target"]]
    return []


def render_A(mods):
    files = {}
    for i, m in enumerate(mods):
        L = [f"module {m['name']}", f"  !! module of A {m['tracer']}"]
        for j in m["uses"]:
            ren = (m.get("renames") or {}).get(str(j))
            if ren:
                L.append(f"  use {mods[j]['name']}, only: " + ", ".join(f"{loc} => {rem}" for loc, rem in ren))
            else:
                L.append(f"  use {mods[j]['name']}")
        L.append("  implicit none")
        if m["default"] == "private":
            L.append("  private")
        for e in m["ents"]:
            if e["access"] and e["how"] == "stmt":
                L.append(f"  {e['access']} :: {e['name']}")
        body = []
        for e in m["ents"]:
            attr = f", {e['access']}" if (e["access"] and e["how"] == "attr") else ""
            if e["k"] == "var":
                L.append(f"  integer{attr} :: {e['name']} = 0")
                L.append(f"  !! variable {e['tracer']}")
            elif e["k"] == "type":
                ext = f", extends({e['extends']})" if e["extends"] else ""
                L.append(f"  type{attr}{ext} :: {e['name']}")
                L.append(f"    !! type {e['tracer']}")
                for c in e["comps"]:
                    L.append(f"    integer :: {c}")
                if e["bound"]:
                    L.append("  contains")
                    L.append(f"    procedure :: {e['bound']['name']} => {e['bound']['target']}")
                    L.append(f"    !! binding {e['bound']['tracer']}")
                L.append(f"  end type {e['name']}")
                if e["bound"]:
                    body += [f"  subroutine {e['bound']['target']}(self)", f"    class({e['name']}), intent(in) :: self",
                             f"  end subroutine {e['bound']['target']}"]
            elif e["k"] == "sub":
                body += [f"  subroutine {e['name']}()", f"    !! subroutine {e['tracer']}", f"  end subroutine {e['name']}"]
            elif e["k"] == "fun":
                body += [f"  integer function {e['name']}()", f"    !! function {e['tracer']}", f"    {e['name']} = 1",
                         f"  end function {e['name']}"]
            elif e["k"] == "gen":
                L.append(f"  interface {e['name']}")
                L.append(f"    !! generic {e['tracer']}")
                L.append(f"    module procedure {e['name']}_i, {e['name']}_r")
                L.append(f"  end interface {e['name']}")
                if e["access"] and e["how"] == "attr":
                    L.append(f"  {e['access']} :: {e['name']}")
                body += [f"  subroutine {e['name']}_i(a)", "    integer, intent(in) :: a", f"  end subroutine {e['name']}_i",
                         f"  subroutine {e['name']}_r(a)", "    real, intent(in) :: a", f"  end subroutine {e['name']}_r"]
            elif e["k"] == "absint":
                L.append("  abstract interface")
                L.append(f"    subroutine {e['name']}()")
                L.append(f"      !! abstract interface {e['tracer']}")
                L.append(f"    end subroutine {e['name']}")
                L.append("  end interface")
                if e["access"] and e["how"] == "attr":
                    L.append(f"  {e['access']} :: {e['name']}")
        if m.get("undoc"):
            # a public procedure without any documentation (A may be built with hide_undoc)
            L.insert(L.index("  implicit none") + 1, f"  public :: {m['undoc']}")
            body += [f"  subroutine {m['undoc']}()", f"  end subroutine {m['undoc']}"]
        if body:
            L.append("contains")
            L += body
        L.append(f"end module {m['name']}")
        files[f"A/src/{m['name']}.f90"] = "\n".join(L) + "\n"
    return files


def target_of(kind, e, home, parent=None):
    """(relative file, fragment) of an entity of A in A's documentation."""
    name = e["name"].lower()
    if kind == "module":
        return f"module/{name}.html", ""
    if kind == "type":
        return f"type/{name}.html", ""
    if kind in ("sub", "fun"):
        return f"proc/{name}.html", ""
    if kind in ("gen", "absint"):
        return f"interface/{name}.html", ""
    if kind == "var":
        return f"module/{home['name']}.html", f"variable-{name}"
    if kind == "bound":
        return f"type/{parent['name']}.html", f"boundprocedure-{name}"
    raise ValueError(kind)


# ----------------------------------------------------------------------------- project B
def gen_B(ch: Chooser, amods):
    """-> files (B/src/...), refs, negatives, clash expectations, kinds referenced"""
    cache = {}
    files = {}
    refs = []          # {"page": rel page of B, "file":..., "frag":..., "tracer":..., "what":...}
    neg = []           # {"page":..., "text": name} names that must stay plain text
    inside = []        # {"page":..., "target": rel page of B} links that must stay inside B
    kinds = set()
    nb = ch.count(1, 2)
    clash_mod = None
    if len(amods) >= 2 and ch.bool(1, 3):
        # B has a module of its own with the name of one of A's modules
        clash_mod = ch.choice(amods)["name"]
        files[f"B/src/{clash_mod}_own.f90"] = (f"module {clash_mod}\n  !! B's own module zq900x16w0\n  implicit none\n"
                                               f"  integer :: own_value = 0\n  !! own zq901x16w0\nend module {clash_mod}\n")
    clash_ent = None
    all_public = []
    for i, m in enumerate(amods):
        for e in m["ents"]:
            if effective(m, e) == "public" and e["k"] in ("type", "sub"):
                all_public.append((i, e))
    if all_public and ch.bool(1, 3):
        ci, ce = ch.choice(all_public)
        clash_ent = ce
        decl = (f"  type :: {ce['name']}\n    !! B's own type zq902x16w0\n    integer :: own\n  end type {ce['name']}\n" if ce["k"] == "type"
                else f"contains\n  subroutine {ce['name']}()\n    !! B's own subroutine zq902x16w0\n  end subroutine {ce['name']}\n")
        files["B/src/bclash.f90"] = f"module bclash\n  !! holds a clashing name\n  implicit none\n{decl}end module bclash\n"
    for bi in range(nb):
        usable = [i for i, m in enumerate(amods) if m["name"] != clash_mod]
        used = [i for i in usable if ch.bool(2, 3)] or (usable[:1])
        if clash_ent is not None:
            # B's units that see A's entity of that name do not also use bclash (would be ambiguous); the clash is
            # exercised through [[name]] references only
            pass
        name = f"bmod{bi}"
        page = f"module/{name}.html"
        vis = {}
        for i in used:
            vis.update(exports(amods, i, cache))
        doc = []
        L = []
        for i in used:
            L.append(f"  use {amods[i]['name']}")
            f, fr = target_of("module", amods[i], None)
            refs.append({"page": page, "file": f, "frag": fr, "tracer": amods[i]["tracer"], "what": f"use {amods[i]['name']}"})
            kinds.add("use")
        if clash_mod and ch.bool(1, 2):
            L.append(f"  use {clash_mod}")
            inside.append({"page": page, "target": f"module/{clash_mod}.html", "what": f"use {clash_mod} (B's own module)"})
            kinds.add("clash-module")
        L.append("  implicit none")
        types = [(n, v) for n, v in vis.items() if v[0] == "type"]
        subs = [(n, v) for n, v in vis.items() if v[0] == "sub"]
        funs = [(n, v) for n, v in vis.items() if v[0] == "fun"]
        gens = [(n, v) for n, v in vis.items() if v[0] == "gen"]
        varz = [(n, v) for n, v in vis.items() if v[0] == "var"]
        absi = [(n, v) for n, v in vis.items() if v[0] == "absint"]

        def ref(pg, kind, v, what, parent=None):
            e = v[2] if kind != "bound" else v
            f, fr = target_of(kind, e, amods[v[1]] if kind != "bound" else None, parent)
            refs.append({"page": pg, "file": f, "frag": fr, "tracer": e["tracer"], "what": what,
                         "needs_graph": what.startswith(("call ", "function reference"))})

        # module variable of an A type
        if types and ch.bool(1, 2):
            n, v = ch.choice(types)
            L.append(f"  type({n}) :: bvar{bi}")
            L.append("  !! a variable of a type of A")
            ref(page, "type", v, f"type({n}) variable")
            kinds.add("variable-of-type")
        # B type extending / containing A types
        tdecl = []
        if types and ch.bool(2, 3):
            tname = f"btype{bi}"
            tpage = f"type/{tname}.html"
            n, v = ch.choice(types)
            tdoc = []
            if ch.bool(1, 2):
                tdecl.append(f"  type, extends({n}) :: {tname}")
                ref(tpage, "type", v, f"extends({n})")
                kinds.add("extends")
            else:
                tdecl.append(f"  type :: {tname}")
            n2, v2 = ch.choice(types)
            if ch.bool(2, 3) and not (clash_ent is not None and n2 == clash_ent["name"]) and n2 == v2[2]["name"]:
                tdoc.append(f"see [[{n2}]]")            # (a name that is an alias inside A's facade is no name for a link)
                ref(tpage, "type", v2, f"[[{n2}]] in type doc")
                kinds.add("doclink")
            tdecl.append("    !! a type of B " + " ".join(tdoc))
            if ch.bool(2, 3):
                tdecl.append(f"    type({n2}) :: held")
                ref(tpage, "type", v2, f"component type({n2})")
                kinds.add("component")
            tdecl.append("    integer :: own")
            tdecl.append(f"  end type {tname}")
        L += tdecl
        # procedure pointer with an abstract interface of A
        if absi and ch.bool(1, 2):
            n, v = ch.choice(absi)
            L.append(f"  procedure({n}), pointer :: bptr{bi} => null()")
            L.append("  !! a procedure pointer")
            ref(page, "absint", v, f"procedure({n}) pointer")
            kinds.add("absint")
        # a subroutine calling into A
        sname = f"bsub{bi}"
        spage = f"proc/{sname}.html"
        S = [f"  subroutine {sname}()"]
        sdoc = []
        decl, stmts = [], []
        if subs and ch.bool(2, 3):
            n, v = ch.choice(subs)
            stmts.append(f"    call {n}()")
            ref(spage, "sub", v, f"call {n}")
            kinds.add("call-sub")
        if funs and ch.bool(2, 3):
            n, v = ch.choice(funs)
            decl.append("    integer :: k")
            stmts.append(f"    k = {n}()")
            ref(spage, "fun", v, f"function reference {n}")
            kinds.add("call-fun")
        if gens and ch.bool(2, 3):
            n, v = ch.choice(gens)
            stmts.append(f"    call {n}({ch.choice(['1', '1.0'])})")
            ref(spage, "gen", v, f"call generic {n}")
            kinds.add("call-generic")
        bound_types = [(n, v) for n, v in types if v[2]["bound"]]
        if bound_types and ch.bool(2, 3):
            n, v = ch.choice(bound_types)
            decl.append(f"    type({n}) :: obj")
            stmts.append(f"    call obj%{v[2]['bound']['name']}()")
            kinds.add("call-binding")
            if ch.bool(1, 2) and not (clash_ent is not None and n == clash_ent["name"]) and n == v[2]["name"]:
                sdoc.append(f"[[{n}:{v[2]['bound']['name']}]]")
                f, fr = target_of("bound", v[2]["bound"], None, v[2])
                refs.append({"page": spage, "file": f, "frag": fr, "tracer": v[2]["bound"]["tracer"], "what": f"[[{n}:binding]]"})
                kinds.add("doclink-binding")
        # [[...]] references
        for _ in range(ch.count(0, 3)):
            cands = [("module", amods[i]["name"], (None, i, amods[i])) for i in used] + \
                    [(v[0], n, v) for n, v in vis.items() if v[0] in ("type", "sub", "fun", "gen") and n == v[2]["name"]]
            kind, n, v = ch.choice(cands)
            if clash_ent is not None and n == clash_ent["name"]:
                continue
            form = ch.choice(["plain", "qualified"]) if kind != "module" else "plain"
            if kind != "module" and amods[v[1]]["name"] == clash_mod:
                form = "plain"          # `amodN:` would name B's own module
            if kind == "module":
                sdoc.append(f"[[{n}]]")
                f, fr = target_of("module", v[2], None)
                refs.append({"page": spage, "file": f, "frag": fr, "tracer": v[2]["tracer"], "what": f"[[{n}]]"})
            elif form == "plain":
                sdoc.append(f"[[{n}]]")
                ref(spage, kind, v, f"[[{n}]]")
            else:
                home = amods[v[1]]["name"]
                sdoc.append(f"[[{home}:{n}]]")
                ref(spage, kind, v, f"[[{home}:{n}]]")
            kinds.add("doclink")
        varz = [(n, v) for n, v in varz if amods[v[1]]["name"] != clash_mod]
        if varz and ch.bool(1, 2):
            n, v = ch.choice(varz)
            home = amods[v[1]]["name"]
            sdoc.append(f"[[{home}:{n}]]")
            ref(spage, "var", v, f"[[{home}:{n}]]")
            kinds.add("doclink-variable")
        # names that are private in A must stay plain text
        privs = [e for i in used for e in amods[i]["ents"] if effective(amods[i], e) == "private" and e["k"] in ("type", "sub", "fun")
                 and e["name"] not in vis]
        if privs and ch.bool(1, 2):
            e = ch.choice(privs)
            sdoc.append(f"[[{e['name']}]]")
            neg.append({"page": spage, "text": e["name"], "tracer": e["tracer"]})
            kinds.add("private-name")
        if clash_ent is not None and ch.bool(2, 3):
            sdoc.append(f"[[{clash_ent['name']}]]")
            tgt = ("type/" if clash_ent["k"] == "type" else "proc/") + clash_ent["name"] + ".html"
            inside.append({"page": spage, "target": tgt, "what": f"[[{clash_ent['name']}]] (B defines it too)"})
            kinds.add("clash-entity")
        S.append("    !! calls into A " + " ".join(sdoc))
        S += decl + stmts
        S.append(f"  end subroutine {sname}")
        doc_mod = f"  !! module of B number {bi}"
        files[f"B/src/{name}.f90"] = "\n".join([f"module {name}", doc_mod] + L + ["contains"] + S + [f"end module {name}"]) + "\n"
    return files, refs, neg, inside, kinds


HISTORIES = ["plain", "plain", "plain", "rebuild-display", "first-without-externalize", "json-missing", "json-truncated",
             "json-html", "json-wrong-shape", "dir-missing", "remote-404", "remote-refused",
             "json-null", "json-no-modules", "json-not-utf8"]
NAMING = ["relative", "relative-slash", "absolute", "remote", "remote-slash", "remote-root", "remote-deep"]


def gen_case(ch: Chooser, excl=()):
    amods = gen_A(ch, excl)
    bfiles, refs, neg, inside, kinds = gen_B(ch, amods)
    history = ch.choice(HISTORIES)
    naming = ch.choice(NAMING)
    if history.startswith("remote-"):
        naming = ch.choice(["remote", "remote-slash", "remote-deep"])
    a_display = ch.choice([["public"], ["public", "private"], ["public", "protected"]])
    a_extra = {}
    if "undocumented_export" not in excl and ch.bool(1, 3):
        amods[-1]["undoc"] = "undoc_sub_a"
        if ch.bool(2, 3):
            a_extra["hide_undoc"] = True
        # B calls it (the call graph of B links to the procedure's page in A, if A has one)
        bfiles["B/src/zz_undoc_user.f90"] = (f"module zz_undoc_user\n  !! uses an undocumented procedure of A\n  use {amods[-1]['name']}\n"
                                             "  implicit none\ncontains\n  subroutine zz_go()\n    !! calls it\n"
                                             "    call undoc_sub_a()\n  end subroutine zz_go\nend module zz_undoc_user\n")
    if ch.bool(1, 4):
        a_extra["incl_src"] = False
    if ch.bool(1, 4):
        a_extra["proc_internals"] = True
    b_graph = ch.bool(2, 3)
    b_extra = {}
    if ch.bool(1, 2):
        b_extra["sort"] = ch.choice(["alpha", "permission", "permission-alpha", "type", "type", "type-alpha", "type-alpha"])
    case = finish_case(amods, bfiles, refs, neg, inside, kinds, history, naming, a_display, a_extra, b_graph, b_extra)
    if ch.bool(1, 3):
        case["b_cwd"] = ch.choice(["parent", "elsewhere"])      # `ford B/project.md` started from another directory
        case["classes"].append("B:cwd=" + case["b_cwd"])
    return case


def finish_case(amods, bfiles, refs, neg, inside, kinds, history, naming, a_display, a_extra, b_graph, b_extra=None):
    files = render_A(amods)
    files.update(bfiles)
    a_opts = {"project": "A", "src_dir": "./src", "externalize": True, "graph": False, "search": False, "parallel": 0,
              "preprocess": False, "display": a_display}
    a_opts.update(a_extra)
    files["A/project.md"] = site.project_file(a_opts)
    b_opts = {"project": "B", "src_dir": "./src", "external": "A = {A_URL}", "graph": b_graph, "search": False, "parallel": 0,
              "preprocess": False, "display": ["public", "private", "protected"]}
    b_opts.update(b_extra or {})
    files["B/project.md"] = site.project_file(b_opts)
    # expected modules.json content
    expected_json = {}
    cache = {}
    for i, m in enumerate(amods):
        ex = exports(amods, i, cache)
        expected_json[m["name"]] = {
            "pub_procs": sorted([n for n, v in ex.items() if v[0] in ("sub", "fun", "gen", "helper")] +
                                ([m["undoc"]] if m.get("undoc") and not a_extra.get("hide_undoc") else [])),
            "pub_types": sorted(n for n, v in ex.items() if v[0] == "type"),
            "pub_vars": sorted(n for n, v in ex.items() if v[0] == "var"),
            "pub_absints": sorted(n for n, v in ex.items() if v[0] == "absint"),
        }
    damaged = history in ("json-missing", "json-truncated", "json-html", "json-wrong-shape", "dir-missing", "remote-404", "remote-refused",
                          "json-null", "json-no-modules", "json-not-utf8")
    public_targets = []
    for i, m in enumerate(amods):
        f, fr = target_of("module", m, None)
        public_targets.append([f, fr])
        if m.get("undoc") and not a_extra.get("hide_undoc"):
            public_targets.append([f"proc/{m['undoc']}.html", ""])
        for e in m["ents"]:
            if effective(m, e) == "public":
                public_targets.append(list(target_of(e["k"], e, m)))
                if e["k"] == "type" and e["bound"]:
                    public_targets.append(list(target_of("bound", e["bound"], None, e)))
                if e["k"] == "type":
                    for c in e["comps"]:
                        public_targets.append([f"type/{e['name']}.html", f"variable-{c}"])
            if m["default"] == "public":
                for h in helpers(e):
                    public_targets.append([f"proc/{h}.html", ""])
    classes = sorted("ref:" + k for k in kinds) + ["history:" + history, "naming:" + naming] + \
        (["renamed-reexport"] if any(m.get("renames") for m in amods) else []) + \
        ["B:" + k + "=" + str(v) for k, v in (b_extra or {}).items()]
    special = bool(set(kinds) & {"clash-module", "clash-entity", "private-name"}) or naming.startswith("remote") or damaged
    return {"files": files, "refs": refs, "neg": neg, "inside": inside, "history": history, "naming": naming,
            "expected_json": expected_json, "damaged": damaged, "a_hide_undoc": bool(a_extra.get("hide_undoc")),
            "public_targets": public_targets, "uses_graph": b_graph,
            "classes": classes, "nontrivial": bool(len(kinds) >= 3 and special)}


def strategy(tier, excl):
    excl = tuple(excl)
    return from_bytes(lambda ch: gen_case(ch, excl), min_size=100, max_size=1200)


# ----------------------------------------------------------------------------- running
class _Handler(http.server.SimpleHTTPRequestHandler):
    mode = "serve"

    def log_message(self, *a):
        pass

    def do_GET(self):
        if self.server.vfw_mode == "404" and self.path.endswith("modules.json"):
            self.send_error(404)
            return
        return super().do_GET()


class Server:
    def __init__(self, root, mode="serve"):
        self.srv = http.server.ThreadingHTTPServer(("127.0.0.1", 0), functools.partial(_Handler, directory=str(root)))
        self.srv.vfw_mode = mode
        self.port = self.srv.server_address[1]
        self.thread = threading.Thread(target=self.srv.serve_forever, daemon=True)

    def __enter__(self):
        self.thread.start()
        return self

    def __exit__(self, *exc):
        self.srv.shutdown()
        self.srv.server_close()
        self.thread.join(5)
        return False


def rewrite_project(path: Path, **changes):
    text = path.read_text()
    for k, v in changes.items():
        text = text.replace(k, v)
    path.write_text(text)


def gate(files):
    """gfortran: A's modules first, then B against them (B's own modules shadow A's)."""
    d = Path(tempfile.mkdtemp(prefix="vfw-gf16-"))
    try:
        (d / "A").mkdir()
        (d / "B").mkdir()
        for side in ("A", "B"):
            srcs = {Path(k).name: v for k, v in files.items() if k.startswith(f"{side}/src/")}
            for n, t in srcs.items():
                (d / side / n).write_text(t)
            pending = sorted(srcs)
            errs = {}
            progress = True
            while pending and progress:
                progress = False
                for n in list(pending):
                    cmd = ["gfortran", "-fsyntax-only", "-std=gnu", "-J", str(d / side)] + (["-I", str(d / "A")] if side == "B" else []) + [n]
                    p = subprocess.run(cmd, cwd=d / side, capture_output=True, text=True, timeout=120)
                    if p.returncode == 0:
                        pending.remove(n)
                        errs.pop(n, None)
                        progress = True
                    else:
                        errs[n] = p.stderr[-1200:]
            if pending:
                return False, "\n".join(errs.values())
        return True, ""
    finally:
        shutil.rmtree(d, ignore_errors=True)


def check(case) -> Result:
    res = Result(nontrivial=case.get("nontrivial", False), classes=list(case.get("classes", [])))
    res.sample = {"history": case["history"], "naming": case["naming"],
                  "B": {k: v for k, v in case["files"].items() if k.startswith("B/")}}
    res.evaluations = 2
    history, naming = case["history"], case["naming"]
    try:
        with fordapi.Sandbox(case["files"], prefix="vfw-c16-") as root:
            root = root.resolve()
            adir, bdir = root / "A", root / "B"
            # ---- history of A
            if history == "rebuild-display":
                rewrite_project(adir / "project.md")
                orig = (adir / "project.md").read_text()
                (adir / "project.md").write_text(re.sub(r"display: .*?\n(    .*\n)*", "display: public\n    private\n    protected\n", orig))
                site.build_site(adir)
                (adir / "project.md").write_text(orig)
                res.evaluations += 1
            elif history == "first-without-externalize":
                orig = (adir / "project.md").read_text()
                (adir / "project.md").write_text(orig.replace("externalize: true", "externalize: false"))
                site.build_site(adir)
                if (adir / "doc" / "modules.json").exists():
                    res.fail("json-without-externalize", "modules.json written although externalize is false")
                (adir / "project.md").write_text(orig)
                res.evaluations += 1
            site.build_site(adir)
            aout = adir / "doc"
            aidx = site.SiteIndex(aout)
            mj = aout / "modules.json"
            # ---- (1) the exported description
            if not mj.exists():
                res.fail("json-not-written", "A was built with externalize: true but doc/modules.json does not exist")
                return res
            data = json.loads(mj.read_text())
            mods = data["modules"] if isinstance(data, dict) else data
            got = {m["name"].lower(): m for m in mods}
            want = case["expected_json"]
            if sorted(got) != sorted(want):
                res.fail("json-modules", f"modules.json lists modules {sorted(got)}, A has {sorted(want)}")
            for name, w in want.items():
                g = got.get(name)
                if g is None:
                    continue
                for key, names in w.items():
                    have = sorted(k.lower() for k in (g.get(key) or {}))
                    # the specific procedures of an exported generic are not exported themselves unless public
                    if have != names:
                        extra = sorted(set(have) - set(names))
                        missing = sorted(set(names) - set(have))
                        if extra:
                            res.fail(f"json-exports-extra:{key}", f"modules.json {name}.{key} lists {extra} which are not public entities of {name} (public: {names})")
                        if missing and not case.get("a_hide_undoc"):
                            # (under hide_undoc A does not show - and so does not export - what it considers undocumented)
                            res.fail(f"json-exports-missing:{key}", f"modules.json {name}.{key} lacks public {missing} (has {have})")
            # ---- damage
            if history == "json-missing":
                mj.unlink()
            elif history == "json-truncated":
                mj.write_text(mj.read_text()[: max(1, len(mj.read_text()) // 2)])
            elif history == "json-html":
                mj.write_text("<html><body><h1>It works!</h1></body></html>\n")
            elif history == "json-wrong-shape":
                mj.write_text(json.dumps({"ford-metadata": {"version": "x"}, "modules": [{"name": "amod0"}, 3, None]}))
            elif history == "json-null":
                mj.write_text("null\n")
            elif history == "json-no-modules":
                mj.write_text(json.dumps({"ford-metadata": {"version": "x"}}))
            elif history == "json-not-utf8":
                mj.write_bytes(b'{"ford-metadata": {"version": "\xe9\xff"}, "modules": []}')
            elif history == "dir-missing":
                shutil.rmtree(aout)
            # ---- how B names A
            srv = None
            base_url = None
            try:
                if naming.startswith("remote"):
                    if naming == "remote-root":
                        serve_root, path = aout, ""
                    elif naming == "remote-deep":
                        serve_root, path = root, "/A/doc"
                    else:
                        serve_root, path = root / "A", "/doc"
                    srv = Server(serve_root if serve_root.exists() else root, "404" if history == "remote-404" else "serve")
                    srv.__enter__()
                    port = srv.port
                    if history == "remote-refused":
                        srv.__exit__()
                        srv = None
                    base_url = f"http://127.0.0.1:{port}{path}"
                    a_url = base_url + ("/" if naming == "remote-slash" else "")
                elif naming == "absolute":
                    a_url = str(aout)
                elif naming == "relative-slash":
                    a_url = "../A/doc/"
                else:
                    a_url = "../A/doc"
                rewrite_project(bdir / "project.md", **{"{A_URL}": a_url})
                try:
                    # (the external path is relative to the project file, wherever FORD is started from)
                    data_b, out_b = site.build_site(bdir, cwd={"parent": root, "elsewhere": root / "A" / "src"}.get(case.get("b_cwd")))
                except SystemExit as e:
                    res.fail("run-aborted:" + ("damaged" if case["damaged"] else "intact"), f"B's run ended with SystemExit({e}) [history {history}, external {a_url}]")
                    return res
                except Exception as e:
                    res.fail("run-crashed:" + ("damaged:" if case["damaged"] else "intact:") + fordapi.exception_signature(e),
                             f"B's run crashed: {type(e).__name__}: {str(e)[:300]} [history {history}, external {a_url}]")
                    return res
                bout = bdir / "doc"
                bidx = site.SiteIndex(bout)
                damaged = case["damaged"]
                public_targets = {(f, fr) for f, fr in case["public_targets"]}

                def resolve(page_rel, url):
                    """-> None (inside B / external web) or (file in A, fragment) or ('?', reason)"""
                    u = url.strip()
                    if not u or u.startswith(("#", "mailto:", "javascript:", "data:")):
                        return None
                    parts = urlsplit(u)
                    if parts.scheme in ("http", "https"):
                        if base_url is not None and (u + "/").startswith(base_url + "/") or (base_url and u.startswith(base_url)):
                            rest = unquote(parts.path)[len(urlsplit(base_url).path):].lstrip("/")
                            return (rest, unquote(parts.fragment))
                        if parts.netloc.startswith("127.0.0.1"):
                            return ("?", f"URL {u} is on the external server but not below {base_url}")
                        return None
                    path = unquote(parts.path)
                    if parts.scheme == "file":
                        path = unquote(parts.path)
                    full = Path(path) if os.path.isabs(path) else (bout / os.path.dirname(page_rel) / path)
                    full = Path(os.path.normpath(full))
                    try:
                        full.relative_to(bout)
                        return None
                    except ValueError:
                        pass
                    try:
                        return (full.relative_to(aout).as_posix(), unquote(parts.fragment))
                    except ValueError:
                        return ("?", f"{u} leaves B's output but does not point into A's output ({full})")

                leaving = {}       # page -> list of (file, frag, url)
                leaving_text = {}  # the same without the links inside graphs
                for rel, page in bidx.pages.items():
                    for attr, url, tag, in_svg in page.links:
                        if tag in ("link", "script", "img"):
                            continue
                        r = resolve(rel, url)
                        if r is None:
                            continue
                        leaving.setdefault(rel, []).append((r[0], r[1], url))
                        if not in_svg:
                            leaving_text.setdefault(rel, []).append((r[0], r[1], url))
                # ---- (5) damaged description: run completed, B's pages are there, nothing leaves B
                if damaged:
                    for rel, lst in leaving.items():
                        f, fr, url = lst[0]
                        res.fail("link-despite-damage", f"{rel}: link {url} although A's description is unusable ({history})")
                    for name in [k for k in case["files"] if k.startswith("B/src/bmod")]:
                        pg = f"module/{Path(name).stem}.html"
                        if pg not in bidx.pages:
                            res.fail("own-page-missing", f"{pg} of B was not generated ({history})")
                    return res
                # ---- (3) everything that leaves B lands on a public entity of A
                seen = set()
                for rel, lst in leaving.items():
                    for f, fr, url in lst:
                        if f == "?":
                            sig = "link-astray"
                            if sig not in seen:
                                seen.add(sig)
                                res.fail(sig, f"{rel}: {fr}")
                            continue
                        pg = aidx.pages.get(f)
                        if pg is None:
                            sig = "link-target-missing"
                            if sig not in seen:
                                seen.add(sig)
                                res.fail(sig, f"{rel}: link {url} -> {f} does not exist in A's documentation")
                            continue
                        if fr and fr not in pg.ids:
                            sig = "link-fragment-missing"
                            if sig not in seen:
                                seen.add(sig)
                                res.fail(sig, f"{rel}: link {url}: #{fr} is not defined in A's {f}")
                            continue
                        if (f, fr) not in public_targets and f != "index.html":
                            sig = "link-to-non-public"
                            if sig not in seen:
                                seen.add(sig)
                                res.fail(sig, f"{rel}: link {url} -> {f}#{fr} is not the page of a public entity of A")
                        if naming.startswith("remote") and srv is not None and (url, ) not in seen:
                            seen.add((url,))
                            try:
                                with urllib.request.urlopen(url, timeout=10) as r:
                                    if r.status != 200:
                                        res.fail("link-http-status", f"{rel}: GET {url} -> {r.status}")
                            except Exception as e:      # noqa
                                res.fail("link-http-status", f"{rel}: GET {url} failed: {e}")
                # ---- (2) every reference is a link to the right place
                for r in case["refs"]:
                    if r.get("needs_graph") and not case["uses_graph"]:
                        continue            # calls are shown in the call graphs only
                    pg = aidx.pages.get(r["file"])
                    if pg is None or (r["frag"] and r["frag"] not in pg.ids) or r["tracer"] not in pg.text:
                        # A's own documentation does not show the entity where expected (e.g. not displayed)
                        res.classes.append("target-not-in-A")
                        continue
                    links = leaving.get(r["page"], [])
                    if r["page"] not in bidx.pages:
                        res.fail("own-page-missing", f"{r['page']} of B was not generated")
                        continue
                    if not any(f == r["file"] and fr == r["frag"] for f, fr, _ in links):
                        kind = re.sub(r"[^a-z\[\]:() -]", "", r["what"].split()[0].lower())
                        res.fail(f"reference-not-linked:{kind_of(r['what'])}",
                                 f"{r['page']}: {r['what']} is not linked to A's {r['file']}#{r['frag']}; links leaving B from this page: {sorted(set(u for _, _, u in links))}")
                # ---- names private in A stay plain text
                for n in case["neg"]:
                    page = bidx.pages.get(n["page"])
                    if page is None:
                        continue
                    for f, fr, url in leaving.get(n["page"], []):
                        if f.endswith(f"/{n['text'].lower()}.html"):
                            res.fail("private-name-linked", f"{n['page']}: [[{n['text']}]] (private in A) is linked to {url}")
                # ---- (4) B's own entities win
                for c in case["inside"]:
                    page = bidx.pages.get(c["page"])
                    if page is None:
                        res.fail("own-page-missing", f"{c['page']} of B was not generated")
                        continue
                    want_abs = os.path.normpath(bout / c["target"])
                    ok = False
                    for attr, url, tag, in_svg in page.links:
                        parts = urlsplit(url)
                        if parts.scheme or not parts.path:
                            continue
                        full = os.path.normpath(bout / os.path.dirname(c["page"]) / unquote(parts.path))
                        if full == want_abs:
                            ok = True
                    if not ok:
                        res.fail("clash-not-own:" + ("module" if c["target"].startswith("module/") else "entity"),
                                 f"{c['page']}: {c['what']} is not linked to B's own {c['target']}")
                    tname = Path(c["target"]).name
                    if any(r["page"] == c["page"] and Path(r["file"]).name == tname for r in case["refs"]):
                        continue        # the page also refers to A's entity of that name by Fortran's rules (call, type(...))
                    for f, fr, url in leaving_text.get(c["page"], []):
                        if Path(f).name == tname and f.split("/")[0] == c["target"].split("/")[0]:
                            res.fail("clash-external-wins:" + ("module" if c["target"].startswith("module/") else "entity"),
                                     f"{c['page']}: {c['what']} is linked to A's {f} ({url})")
            finally:
                if srv is not None:
                    srv.__exit__()
    except SystemExit as e:
        res.fail("HARNESS:ford-exited-on-A", str(e))
    except Exception as e:
        res.fail("build:" + fordapi.exception_signature(e), f"{type(e).__name__}: {str(e)[:300]}")
    if res.failures and not any(f.signature.startswith("HARNESS") for f in res.failures):
        ok, err = gate(case["files"])
        if not ok:
            res.failures = []
            res.fail("HARNESS:gfortran-rejects-generated-program", err[-600:])
    return res


def kind_of(what):
    if what.startswith("[["):
        return "doclink-qualified" if ":" in what else "doclink"
    return what.split()[0].split("(")[0]
