"""C03 - each doc comment lands on its entity, complete, once and in order.

Part A (programs): generated projects in which every documentable entity may carry a doc
comment made of unique tracer words, in any of the four marker styles, inline or on its own
line, with blank and ordinary comment lines between entities and with re-configured marker
characters.  Oracles: (1) attachment - the tracer sequence of every entity in FORD's tree
equals the model's (so no entity holds a neighbour's words and ordinary comments hold none);
(2) rendering - after Project.markdown() the tracer sequence of entity.doc (tags stripped)
plus its metadata is again exactly the expected sequence; (3) leading metadata lines end up
in entity.meta and not in the text.
Part B (bodies): documentation bodies from a Markdown grammar (paragraphs, lists, indented and
fenced code, note boxes of all five kinds: terminated, unterminated, consecutive, with text
after the end marker) converted by FORD's MetaMarkdown directly: every tracer exactly once,
in order.
"""
from __future__ import annotations

from vfw import extract, fordapi, gen, model, render
from vfw.choose import Chooser, from_bytes
from vfw.runner import Result

ID = "C03"
LEVEL = "exploration"
TECHNIQUE = ("property-based testing: unique tracer words per entity / per body line; oracle = tracer sequences known by "
             "construction, compared after parsing and again after Markdown rendering")
RULE = ("case = generated documented project (part A) or a batch of generated Markdown bodies (part B); non-trivial iff "
        "(A) two adjacent documented entities use different marker styles, or (B) a body holds a note box plus another "
        "block element; distinct by SHA-1 of the files / bodies")
ASSUMPTIONS = [
    "doc comments are placed only where the user guide defines their meaning; bodies start with `word:` only for "
    "intended metadata; @note markers start a line; tracers contain no Markdown-significant characters",
    "one comment on a declaration that names several entities documents all of them",
    "gfortran accepts every program behind a reported violation",
]
FORD_OPTS = dict(display=["public", "private", "protected"], proc_internals=True)
MARK_SETS = [
    None, None,
    {"docmark": "<", "predocmark": ">", "docmark_alt": "#", "predocmark_alt": "*"},
    {"docmark": "!", "predocmark": "<", "docmark_alt": "@", "predocmark_alt": "%"},
    {"docmark": "d", "predocmark": "p", "docmark_alt": "D", "predocmark_alt": "P"},
    {"docmark": "!>", "predocmark": "!<", "docmark_alt": "!*", "predocmark_alt": "!|"},
]
BOX = ["note", "warning", "todo", "bug", "history"]


def budget(tier):
    if tier == "quick":
        return {"examples": 4000, "shrink_cap_s": 40}
    return {"examples": 48000, "shrink_cap_s": 240, "wall_cap_s": 3000}


# ----------------------------------------------------------------------------- Markdown body grammar
def body(ch: Chooser, n, with_meta=True, rich=True):
    """-> (lines, features).  Tracer words zq<n>x<line>w<k>; metadata values zm..., summaries zs..."""
    lines, feats = [], set()
    state = {"ln": 0}

    def words(k=None, prefix="zq"):
        k = k or ch.count(1, 3)
        state["ln"] += 1
        return " ".join(f"{prefix}{n}x{state['ln']}w{j}" for j in range(k))

    if with_meta and ch.bool(1, 4):
        for _ in range(ch.count(1, 2)):
            key = ch.choice(["author", "version", "since", "category", "date", "license", "deprecated", "summary"])
            if any(l.startswith(key + ":") for l in lines):
                continue
            if key == "deprecated":
                lines.append("deprecated: true")
            elif key == "summary":
                lines.append("summary: " + words(prefix="zs"))
            else:
                lines.append(f"{key}: " + words(1, prefix="zm"))
            feats.add("meta:" + key)
        lines.append("")
    nblocks = ch.count(1, 4 if rich else 2)
    for b in range(nblocks):
        if b:
            lines.append("")
        kind = ch.weighted([(4, "para"), (2, "bullets"), (1, "numbered"), (1, "code-indent"), (1, "code-fence"),
                            (3, "box")]) if rich else "para"
        if b == 0 and kind in ("code-indent",):
            kind = "para"
        feats.add(kind)
        if kind == "para":
            for _ in range(ch.count(1, 3)):
                lines.append(words())
        elif kind == "bullets":
            for _ in range(ch.count(2, 3)):
                lines.append(ch.choice(["- ", "* "]) + words())
        elif kind == "numbered":
            for i in range(ch.count(2, 3)):
                lines.append(f"{i + 1}. " + words())
        elif kind == "code-indent":
            for _ in range(ch.count(1, 2)):
                lines.append("    " + words())
        elif kind == "code-fence":
            lines.append("```")
            for _ in range(ch.count(1, 2)):
                lines.append(words())
            lines.append("```")
        else:
            t = ch.choice(BOX)
            tcase = ch.choice([t, t.upper(), t.capitalize()])
            form = ch.weighted([(3, "terminated"), (2, "unterminated"), (2, "sameline"), (2, "end-posttext"),
                                (1, "consecutive"), (1, "end-posttext-next")])
            feats.add("box:" + form)
            if form == "terminated":
                lines.append("@" + tcase)
                for _ in range(ch.count(1, 2)):
                    lines.append(words())
                lines.append("@end" + tcase)
            elif form == "unterminated":
                lines.append("@" + tcase)
                for _ in range(ch.count(1, 2)):
                    lines.append(words())
            elif form == "sameline":
                lines.append(f"@{tcase} " + words())
                if ch.bool():
                    lines.append(words())
                lines.append("@end" + tcase)
            elif form == "end-posttext":
                lines.append("@" + tcase)
                lines.append(words())
                lines.append(f"@end{tcase} " + words())
            elif form == "end-posttext-next":
                lines.append("@" + tcase)
                lines.append(words())
                lines.append(f"@end{tcase} " + words())
                lines.append(words())
            else:
                t2 = ch.choice(BOX)
                lines.append("@" + tcase)
                lines.append(words())
                lines.append("@end" + tcase)
                lines.append("@" + t2)
                lines.append(words())
                lines.append("@end" + t2)
    if rich and ch.bool(1, 6):
        # a footnote / a reference-style link whose definition ends this comment: definitions belong to one comment only
        lines.append("")
        if ch.bool():
            lines.append(words() + f" see[^fn{n}]")
            lines.append("")
            lines.append(f"[^fn{n}]: " + words())
            feats.add("footnote")
        else:
            lines.append(words() + f" [zq{n}x999w0][ref{n}]")
            lines.append("")
            lines.append(f"[ref{n}]: http://example.com/page{n}")
            feats.add("reference-link")
    return lines, feats


def doc_maker(g, what, n):
    rich = what[0] in ("procedure", "module", "type", "program", "submodule")
    lines, feats = body(g.ch, n, with_meta=what[0] in ("procedure", "module", "type", "variable"), rich=rich)
    g.entity_docs.setdefault("_feats", set()).update(feats)
    return [" " + l if l else "" for l in lines]


# ----------------------------------------------------------------------------- cases
def gen_case(ch: Chooser, excl=()):
    part = ch.weighted([(3, "A"), (1, "B")])
    if part == "B":
        bodies = []
        feats = set()
        for i in range(ch.count(3, 8)):
            lines, f = body(ch, i + 1, with_meta=False)
            bodies.append(lines)
            feats |= f
        nt = any(sum(1 for l in b if l.startswith("@") and not l.lower().startswith("@end")) >= 1 and
                 any(l.startswith(("- ", "* ", "1. ", "```", "    ")) or (l and not l.startswith("@")) for l in b)
                 for b in bodies)
        return {"part": "B", "bodies": bodies, "classes": sorted("B:" + x for x in feats), "nontrivial": bool(nt)}
    marks = ch.choice(MARK_SETS)
    g = gen.Gen(ch, {"docs": True, "doc_maker": doc_maker, "late_access": True, "excl": tuple(excl)})
    proj = g.project()
    files, used = render.render_project(proj, ch, marks=marks, features={"comments": True, "include_split": True})
    styles = used.get("docstyle", [])
    feats = g.entity_docs.get("_feats", set())
    return {"part": "A", "files": files, "marks": marks, "expected": model.canon_project(proj),
            "classes": sorted(["A:style:" + s for s in styles] + ["A:marks:" + ("custom" if marks else "default")] +
                              (["A:include-file"] if "include-split" in used else []) + (["A:include-empty"] if "include-empty" in used else []) +
                              ["A:" + f for f in feats]),
            "nontrivial": len(styles) >= 2}


def strategy(tier, excl):
    excl = tuple(excl)
    return from_bytes(lambda ch: gen_case(ch, excl), min_size=300, max_size=3500)


# ----------------------------------------------------------------------------- oracles
def doc_only(tree):
    """Keep identity and documentation tracers only."""
    if isinstance(tree, dict):
        out = {}
        for k, v in tree.items():
            if k in ("name", "kind_", "doctr"):
                out[k] = v
            elif isinstance(v, (dict, list)) and k not in ("uses", "attrs", "prefix", "finals", "modprocs", "enums",
                                                          "targets", "vars", "calls", "doc"):
                r = doc_only(v)
                if r not in ({}, []):
                    out[k] = r
        return out
    if isinstance(tree, list):
        return [doc_only(x) for x in tree if isinstance(x, (dict, list))]
    return tree


def check_bodies(case, res):
    import ford._markdown as fm
    md = fm.MetaMarkdown(".", base_url=".")
    for lines in case["bodies"]:
        expect = model.TRACER.findall("\n".join(lines))
        try:
            html = md.reset().convert("\n".join(lines))
        except Exception as e:
            res.fail("markdown:" + fordapi.exception_signature(e), f"{type(e).__name__}: {e}; body={lines}")
            continue
        import html as _h
        got = model.TRACER.findall(_h.unescape(extract._TAG.sub("", html)))
        if got != expect:
            kind = "lost" if len(got) < len(expect) else ("duplicated" if len(got) > len(expect) else "reordered")
            res.fail(f"body-words-{kind}", f"expected {expect} got {got}; body={lines}")


def check(case) -> Result:
    res = Result(nontrivial=case.get("nontrivial", False), classes=list(case.get("classes", [])))
    if case["part"] == "B":
        res.sample = {"bodies": case["bodies"][:2]}
        res.evaluations = len(case["bodies"])
        check_bodies(case, res)
        return res
    res.sample = {"files": case["files"], "marks": case["marks"]}
    opts = dict(FORD_OPTS)
    if case.get("marks"):
        opts.update(case["marks"])
    try:
        with fordapi.Sandbox(case["files"], prefix="vfw-c03-") as root:
            project, out = fordapi.parse_project(root, **opts)
            raw = extract.project_tree(project, root)
            # (2) rendering
            import ford._markdown as fm
            md = fm.MetaMarkdown(project.settings.md_base_dir, base_url=project.settings.project_url, project=project)
            import contextlib, io
            with contextlib.redirect_stdout(io.StringIO()):
                project.markdown(md)
            extract.USE_RENDERED = True
            try:
                rendered = extract.project_tree(project, root)
            finally:
                extract.USE_RENDERED = False
    except Exception as e:
        res.fail(fordapi.exception_signature(e), f"{type(e).__name__}: {str(e)[:400]}")
        raw = rendered = None
    if raw is not None:
        exp = doc_only(case["expected"])
        for sig, msg in model.diff(exp, doc_only(raw)):
            if sig.endswith("doctr:length") or ".doctr" in sig:
                res.fail("attach:" + sig.split(".")[0].split(":")[0], "attachment: " + msg)
            elif sig.startswith(("missing:", "extra:")):
                res.fail("tree:" + sig, msg)
            elif sig.endswith(":missing-field") and "/" not in msg.split(":")[0]:
                res.fail("tree:file-dropped", msg)        # a whole source file is absent from the tree
        for sig, msg in model.diff(exp, doc_only(rendered)):
            if sig.endswith("doctr:length") or ".doctr" in sig:
                res.fail("render:" + sig.split(".")[0].split(":")[0], "rendering: " + msg)
    if res.failures:
        ok, err = fordapi.gfortran_check(case["files"])
        if not ok:
            res.failures = []
            res.fail("HARNESS:gfortran-rejects-generated-program", err[-600:])
    return res
