"""C05 - the site documents exactly the entities selected by the display options.

Generated: documented projects (one unique tracer word per entity) x project `display`
(every subset of public/protected/private, and none) x `display:` / `proc_internals:`
metadata on files, modules, types and procedures x proc_internals x hide_undoc (with some
entities undocumented).  Oracle: a reference selection function over the model; then over
every generated page and the search index: (i) the tracer of every selected entity is on
the page that documents it; (ii) the tracer of an unselected entity is nowhere (raw source
listings excluded); (iii) an unselected entity has no page of its own.
"""
from __future__ import annotations

from vfw import fordapi, gen, render, site
from vfw.choose import Chooser, from_bytes
from vfw.model import TRACER
from vfw.runner import Result

ID = "C05"
LEVEL = "exploration"
TECHNIQUE = ("property-based testing: tracer words + reference selection function over the model; whole-output "
             "presence/absence check over every page and the search index")
RULE = ("case = documented project + display configuration; non-trivial iff the configuration hides >=1 and shows >=1 "
        "tracer-bearing entity; distinct by SHA-1 of files + options")
ASSUMPTIONS = [
    "the raw source listing (sourcefile pages, src/ copies, `source: true` panels) is source code, not documentation",
    "entities shown by reference (specifics of a shown generic, binding / finaliser targets, dummy arguments and results "
    "of a shown procedure) are exempt from the absence check",
    "locals of module procedures have no Fortran accessibility: with proc_internals on they are not asserted either way; "
    "with proc_internals off none of them may appear",
    "enums, common blocks, namelists, type extension and submodules are outside the core class of this check",
]
DISPLAYS = [["public"], ["public", "protected"], ["public", "private"], ["private"], ["protected"],
            ["public", "private", "protected"], ["private", "protected"], ["none"]]


def budget(tier):
    if tier == "quick":
        return {"examples": 800, "shrink_cap_s": 60}
    return {"examples": 6400, "shrink_cap_s": 280, "wall_cap_s": 3300}


def doc_maker(g, what, n):
    """One tracer per entity, optionally preceded by display / proc_internals metadata."""
    ch = g.ch
    lines = []
    kind = what[0]
    if kind in ("module", "type", "procedure", "program") and ch.bool(1, 4):
        d = ch.choice(DISPLAYS)
        lines.append("display: " + d[0])
        for x in d[1:]:
            lines.append("         " + x)
    if kind == "procedure" and ch.bool(1, 5):
        lines.append("proc_internals: " + ch.choice(["true", "false"]))
    if lines:
        lines.append("")
    lines.append(f"zq{n}x0w0")
    if ch.bool(1, 3):
        # a second paragraph: summaries show the first one only, the documenting page must show both
        lines += ["", f"zq{n}x1w0"]
    return [" " + l if l else "" for l in lines]


def tracers_of(doc):
    return [m.group() for l in (doc or []) for m in [TRACER.search(l.strip())] if m]


def meta_of(doc):
    """(tracer | None, display list | None, proc_internals | None) of a doc comment."""
    tracer, display, pi = None, None, None
    lines = [l.strip() for l in (doc or [])]
    i = 0
    while i < len(lines) and lines[i]:
        if lines[i].startswith("display:"):
            display = [lines[i].split(":", 1)[1].strip()]
            j = i + 1
            while j < len(lines) and lines[j] and ":" not in lines[j] and not TRACER.search(lines[j]):
                display.append(lines[j])
                j += 1
        elif lines[i].startswith("proc_internals:"):
            pi = lines[i].split(":", 1)[1].strip() == "true"
        i += 1
    for l in lines:
        m = TRACER.search(l)
        if m:
            tracer = m.group()
    return tracer, display, pi


def eff_display(doc, inherited, is_file=False):
    _, display, _ = meta_of(doc)
    if not display:
        return inherited
    d = [x.lower() for x in display]
    if is_file:
        d = [x for x in d if x != "none"]
        if not d:
            return inherited
    if "none" in d:
        return []
    if not any(x in d for x in ("public", "private", "protected")):
        return inherited
    return d


class Expect:
    def __init__(self, options):
        self.show = []        # (tracer, page-kind, page-name | None, description)
        self.hide = []        # (tracer, description)
        self.skip = set()     # tracers not asserted
        self.nopage = []      # (dir, name) pages that must not exist
        self.hide_undoc = options.get("hide_undoc", False)
        self.proc_internals = options.get("proc_internals", False)

    def ok_doc(self, doc):
        return (not self.hide_undoc) or bool(doc)


def access_of(node, default):
    a = node.get("access")
    return a or default


def expect_project(proj, options):
    X = Expect(options)
    pdisp = [d.lower() for d in options.get("display", ["public", "protected"])]
    if "none" in pdisp:
        pdisp = []

    def mark(node_doc, selected, where, exempt=False):
        ts = tracers_of(node_doc)
        if not ts:
            return
        if exempt:
            X.skip.update(ts)
        elif selected:
            X.show.append((ts[-1], where))       # the last paragraph: the whole comment is on the documenting page
            X.skip.update(ts[:-1])
        else:
            for t in ts:
                X.hide.append((t, where))

    def var_decls(decls, disp, default, where, assert_=True):
        for d in decls:
            if d["d"] != "var":
                continue
            doc = next((e.get("doc") for e in d["ents"] if e.get("doc")), None)
            acc = access_of(d, default)
            sel = acc in disp and X.ok_doc(doc)
            mark(doc, sel, where, exempt=not assert_)

    def proc_contents(p, shown, where, internals_asserted_hidden):
        """args/result follow the procedure; locals only asserted when they must all be hidden."""
        args = set(a.lower() for a in p.get("args", []))
        rname = (p.get("result") or p["name"]).lower() if p["k"] == "function" else None
        for d in p.get("decls", []):
            if d["d"] == "var":
                doc = next((e.get("doc") for e in d["ents"] if e.get("doc")), None)
                names = {e["name"].lower() for e in d["ents"]}
                if names & args or (rname and rname in names):
                    mark(doc, shown, where, exempt=not shown and False)
                else:
                    if internals_asserted_hidden or not shown:
                        mark(doc, False, (where[0], where[1], "local"))
                    else:
                        mark(doc, True, where, exempt=True)
            elif d["d"] == "type":
                hidden = internals_asserted_hidden or not shown
                mark(d.get("doc"), False, (where[0], where[1], "local type")) if hidden else mark(d.get("doc"), True, where, exempt=True)
                for c in d.get("comps", []):
                    doc = next((e.get("doc") for e in c["ents"] if e.get("doc")), None)
                    mark(doc, False, where) if hidden else mark(doc, True, where, exempt=True)
                for b in d.get("binds", []):
                    mark(b.get("doc"), False, where) if hidden else mark(b.get("doc"), True, where, exempt=True)
            elif d["d"] == "namelist":
                # a namelist group has a page of its own: of a procedure that is not documented, nothing is
                if not shown:
                    mark(d.get("doc"), False, (where[0], where[1], "namelist of an undisplayed procedure"))
                else:
                    mark(d.get("doc"), True, where, exempt=True)
            elif d["d"] == "interface":
                hidden = internals_asserted_hidden or not shown
                for b in d.get("bodies", []):
                    is_arg = b["name"].lower() in args
                    for t in all_tracers(b):
                        if is_arg and shown:
                            X.skip.add(t)
                        elif hidden:
                            X.hide.append((t, (where[0], where[1], "local interface")))
                        else:
                            X.skip.add(t)
        for q in p.get("procs", []):
            hidden = internals_asserted_hidden or not shown
            for t in all_tracers(q):
                if hidden:
                    X.hide.append((t, (where[0], where[1], "internal procedure")))
                else:
                    X.skip.add(t)

    def all_tracers(node):
        out = []
        if isinstance(node, dict):
            if "doc" in node and node["doc"]:
                out += tracers_of(node["doc"])
            for v in node.values():
                out += all_tracers(v)
        elif isinstance(node, list):
            for v in node:
                out += all_tracers(v)
        return out

    def eff_pi(p):
        _, _, pi = meta_of(p.get("doc"))
        return X.proc_internals if pi is None else pi

    for f in proj["files"]:
        fdisp = eff_display(f.get("doc"), pdisp, is_file=True)
        for u in f["units"]:
            k = u["k"]
            if k == "module":
                page = ("module", u["name"].lower())
                mark(u.get("doc"), True, page)
                default = u.get("default_access") or "public"
                mdisp = eff_display(u.get("doc"), fdisp)
                var_decls(u.get("decls", []), mdisp, default, page)
                # procedures that are shown by reference
                by_ref = set()
                shown_on_type = {}        # implementation name -> page of a shown type whose shown binding names it
                for d in u.get("decls", []):
                    if d["d"] == "interface" and d["form"] == "generic":
                        by_ref.update(x.lower() for x in d.get("modprocs", []))
                    if d["d"] == "type":
                        for b in d.get("binds", []):
                            if not b.get("generic"):
                                by_ref.add((b.get("target") or b["name"]).lower())
                        by_ref.update(x.lower() for x in d.get("finals", []))
                for d in u.get("decls", []):
                    if d["d"] == "type":
                        acc = access_of(d, default)
                        sel = acc in mdisp and X.ok_doc(d.get("doc"))
                        tpage = ("type", d["name"].lower())
                        mark(d.get("doc"), sel, tpage)
                        if not sel:
                            X.nopage.append(tpage)
                        tdisp = eff_display(d.get("doc"), mdisp)
                        cdef = "private" if d.get("private_comps") else "public"
                        bdef = "private" if d.get("private_binds") else "public"
                        for c in d.get("comps", []):
                            doc = next((e.get("doc") for e in c["ents"] if e.get("doc")), None)
                            csel = sel and access_of(c, cdef) in tdisp and X.ok_doc(doc)
                            mark(doc, csel, tpage)
                        for b in d.get("binds", []):
                            bsel = sel and access_of(b, bdef) in tdisp and X.ok_doc(b.get("doc"))
                            mark(b.get("doc"), bsel, tpage)
                            if bsel and not b.get("generic") and not b.get("deferred"):
                                shown_on_type.setdefault((b.get("target") or b["name"]).lower(), tpage)
                    elif d["d"] == "interface":
                        if d["form"] == "generic":
                            acc = access_of(d, default)
                            sel = acc in mdisp and X.ok_doc(d.get("doc"))
                            ipage = ("interface", d["name"].lower())
                            mark(d.get("doc"), sel, ipage)
                            if not sel:
                                X.nopage.append(ipage)
                            for b in d.get("bodies", []):
                                for t in all_tracers(b):
                                    X.skip.add(t) if sel else X.hide.append((t, ipage))
                        else:
                            for b in d["bodies"]:
                                if X.hide_undoc:
                                    # whether the comment after the INTERFACE line or the one after the
                                    # procedure line counts as "the" documentation is not specified
                                    for t in all_tracers(b):
                                        X.skip.add(t)
                                    continue
                                acc = b.get("access") or d.get("access") or default
                                sel = acc in mdisp and X.ok_doc(b.get("doc"))
                                ipage = ("interface", b["name"].lower())
                                if not sel and "module" in [x.lower() for x in b.get("prefix", [])]:
                                    # the interface of a separate module procedure is also shown with its
                                    # implementation in the submodule (by reference)
                                    for t in all_tracers(b):
                                        X.skip.add(t)
                                    continue
                                mark(b.get("doc"), sel, ipage)
                                if not sel:
                                    X.nopage.append(ipage)
                                proc_contents(b, sel, ipage, False)
                for p in u.get("procs", []):
                    acc = access_of(p, default)
                    sel = acc in mdisp and X.ok_doc(p.get("doc"))
                    ppage = ("proc", p["name"].lower())
                    exempt = p["name"].lower() in by_ref
                    if exempt:
                        for t in all_tracers(p):
                            X.skip.add(t)
                        ts = tracers_of(p.get("doc"))
                        if ts and not sel and p["name"].lower() in shown_on_type and acc in ("public", "private"):
                            # an implementation without a page of its own: the type page that shows the binding carries
                            # the whole comment
                            X.skip.discard(ts[-1])
                            X.show.append((ts[-1], shown_on_type[p["name"].lower()]))
                        continue
                    mark(p.get("doc"), sel, ppage)
                    if not sel:
                        X.nopage.append(ppage)
                    proc_contents(p, sel, ppage, internals_asserted_hidden=not eff_pi(p))
            elif k in ("subroutine", "function"):
                ppage = ("proc", u["name"].lower())
                mark(u.get("doc"), True, ppage)
                proc_contents(u, True, ppage, internals_asserted_hidden=not eff_pi(u))
            elif k == "program":
                ppage = ("program", u["name"].lower())
                mark(u.get("doc"), True, ppage)
                pdisp_ = eff_display(u.get("doc"), fdisp)
                var_decls(u.get("decls", []), pdisp_, "public", ppage)
                for d in u.get("decls", []):
                    if d["d"] == "type":
                        sel = "public" in pdisp_ and X.ok_doc(d.get("doc"))
                        tpage = ("type", d["name"].lower())
                        mark(d.get("doc"), sel, tpage)
                        if not sel:
                            X.nopage.append(tpage)
                        tdisp = eff_display(d.get("doc"), pdisp_)
                        for c in d.get("comps", []):
                            doc = next((e.get("doc") for e in c["ents"] if e.get("doc")), None)
                            mark(doc, sel and "public" in tdisp and X.ok_doc(doc), tpage)
                    elif d["d"] == "interface":
                        for t in all_tracers(d):
                            X.skip.add(t)
                for q in u.get("procs", []):
                    sel = "public" in pdisp_ and X.ok_doc(q.get("doc"))
                    qpage = ("proc", q["name"].lower())
                    mark(q.get("doc"), sel, qpage)
                    if not sel:
                        X.nopage.append(qpage)
                    proc_contents(q, sel, qpage, internals_asserted_hidden=not eff_pi(q))
            elif k == "submodule":
                page = ("module", u["name"].lower())
                mark(u.get("doc"), True, page)
                sdisp = eff_display(u.get("doc"), fdisp)
                var_decls(u.get("decls", []), sdisp, "private", page)
                for p in u.get("procs", []):
                    sel = "private" in sdisp and X.ok_doc(p.get("doc"))
                    ppage = ("proc", p["name"].lower())
                    # (the implementation may also be described through its interface in the ancestor module)
                    mark(p.get("doc"), sel, ppage, exempt=not sel)
                    if p["k"] == "modproc":
                        args = set()
                    for d in p.get("decls", []):
                        if d["d"] != "var":
                            continue
                        doc = next((e.get("doc") for e in d["ents"] if e.get("doc")), None)
                        names = {e["name"].lower() for e in d["ents"]}
                        is_dummy = bool(names & set(a.lower() for a in p.get("args", []))) or \
                            (p["k"] == "function" and (p.get("result") or p["name"]).lower() in names)
                        if is_dummy:
                            mark(doc, True, ppage, exempt=True)
                        elif not eff_pi(p) or not sel:
                            mark(doc, False, (ppage[0], ppage[1], "local of a module procedure implementation"))
                        else:
                            mark(doc, True, ppage, exempt=True)
            else:
                for t in all_tracers(u):
                    X.skip.add(t)
    return X


def gen_case(ch: Chooser, excl=()):
    cfg = {"docs": True, "doc_maker": doc_maker, "late_access": True, "submodules": True, "enums": False,
           "commons": False, "namelists": "namelists" not in excl, "blockdata": False, "no_extends": True, "exec_decoys": False,
           "bind": False, "excl": tuple(excl)}
    g = gen.Gen(ch, cfg)
    proj = g.project()
    # file-level documentation with display metadata
    for f in proj["files"]:
        if ch.bool(1, 4) and "file_display" not in excl:
            g.docn += 1
            d = ch.choice(DISPLAYS)
            f["doc"] = [" display: " + d[0]] + ["          " + x for x in d[1:]] + ["", f" zq{g.docn}x0w0"]
    options = {"project": "P", "src_dir": "./src", "output_dir": "./doc", "preprocess": False, "parallel": 0,
               "display": ch.choice(DISPLAYS), "proc_internals": ch.bool(), "hide_undoc": ch.bool(1, 3),
               "search": ch.bool(3, 4), "incl_src": ch.bool(3, 4), "graph": ch.bool(1, 6)}
    if "display_case" not in excl and ch.bool(1, 3):
        # the values are keywords: `display: Public` selects what `display: public` selects
        options["display"] = [ch.choice([v.capitalize(), v.upper()]) for v in options["display"]]
    files, used = render.render_project(proj, ch, features={"comments": False, "docstyles": ["post"], "inline_docs": False})
    files["project.md"] = site.project_file(options, "Project text.\n")
    X = expect_project(proj, options)
    show = [[t, list(w)] for t, w in X.show if t not in X.skip]
    hide = [[t, str(w)] for t, w in X.hide if t not in X.skip]
    classes = ["display:" + "+".join(options["display"]).lower(), "proc_internals:" + str(options["proc_internals"]),
               "hide_undoc:" + str(options["hide_undoc"])]
    return {"files": files, "options": options, "show": show, "hide": hide, "nopage": [list(x) for x in X.nopage],
            "classes": classes, "nontrivial": bool(show) and bool(hide)}


def strategy(tier, excl):
    excl = tuple(excl)
    return from_bytes(lambda ch: gen_case(ch, excl), min_size=400, max_size=4000)


def check(case) -> Result:
    res = Result(nontrivial=case.get("nontrivial", False), classes=list(case.get("classes", [])))
    res.sample = {"options": case["options"], "files": {k: v for k, v in list(case["files"].items())[:2]},
                  "show": case["show"][:5], "hide": case["hide"][:5]}
    try:
        with fordapi.Sandbox(case["files"], prefix="vfw-c05-") as root:
            data, out = site.build_site(root)
            idx = site.SiteIndex(root / "doc")
    except SystemExit as e:
        res.fail("HARNESS:ford-exited", str(e))
        return res
    except Exception as e:
        res.fail("build:" + fordapi.exception_signature(e), f"{type(e).__name__}: {str(e)[:300]}")
        return res
    for t, where in case["show"]:
        pages = idx.pages_with(t)
        kind, name = where[0], where[1]
        own = [p for p in pages if p.startswith(kind + "/")]
        if not own:
            res.fail(f"selected-entity-missing:{kind}", f"tracer {t} of a selected entity is not on its {kind} page "
                                                       f"({name}); found on {pages}")
    for t, where in case["hide"]:
        pages = idx.pages_with(t)
        if pages:
            res.fail("unselected-entity-leaks:page", f"tracer {t} of an unselected entity ({where}) appears on {pages}")
        hits = idx.search_entries_with(t)
        # (the search entries of source-file pages hold the raw source text)
        hits = [h for h in hits if not str(h).startswith("sourcefile/")]
        if hits:
            res.fail("unselected-entity-leaks:search", f"tracer {t} of an unselected entity ({where}) is in the search "
                                                       f"index entries {hits}")
    return res
