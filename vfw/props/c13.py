"""C13 - every graph shows exactly the relation it is documented to show.

Generated: projects of modules (USE DAGs: chains, diamonds, dense), third-party modules,
submodules (with parent submodules), derived types (extension chains, composition with
cycles and self reference), module procedures calling each other (recursion, mutual calls,
calls through hidden procedures, generic interfaces, separate module procedures implemented
in submodules, unknown external routines), programs, top-level procedures and block data,
spread over 1-4 files x graph_maxdepth x graph_maxnodes x show_proc_parent x per-entity
`graph: false` / graph_maxdepth / graph_maxnodes metadata.

Oracle: the four relations (USE + ancestry, extension + composition, calls + interface ->
implementation, file dependencies) are derived from the model alone; for every entity the
reference graph is the hop-wise breadth-first ball around it that the documentation of
graph_maxdepth / graph_maxnodes describes.  Compared with the DOT text of every graph
object (and the .gv files / inline SVG / table fallback):
  nodes  == reference ball;  required edges <= drawn edges <= relation restricted to the ball
  (required == allowed when the graph is not truncated);
  'used by' / 'inherited by' / 'called by' / 'afferent' graphs use the inverse relation, and
  independently of the model: a first-hop edge a->b of a's forward graph is in b's inverse
  graph and vice versa;
  `graph: false`: no graphs for the entity, no node in the project-wide graphs.
"""
from __future__ import annotations

import html
import os
import re

from vfw import fordapi, site
from vfw.choose import Chooser, from_bytes
from vfw.runner import Result

ID = "C13"
LEVEL = "exploration"
TECHNIQUE = ("property-based testing: generated projects with known USE / type / call / file relations; reference = "
             "hop-wise BFS balls over the model's relation under depth and node limits; DOT text, .gv files, SVG titles "
             "and table fallback compared; forward/inverse metamorphic check")
RULE = ("case = generated project + graph options; non-trivial iff some relation has a cycle or a diamond, or a depth / "
        "node limit truncates at least one graph; distinct by SHA-1 of files + options")
ASSUMPTIONS = [
    "node identity = the DOT node id FORD documents in its .gv files: <kind>~<name> for project entities, the bare name "
    "for third-party modules / unknown routines (all generated names are unique, so ids are unambiguous)",
    "truncated graphs: the node set must be exactly the ball; edges between two nodes of the last hop may or may not be drawn",
    "project-wide graphs are compared exactly only when graph_maxnodes is not binding (the documentation defines node "
    "limits for per-entity graphs only)",
    "a sub-submodule's file may or may not be shown as depending on the ancestor module's file as well as on its parent's",
]
BIG = 10 ** 9


def budget(tier):
    if tier == "quick":
        return {"examples": 320, "shrink_cap_s": 60}
    return {"examples": 6400, "shrink_cap_s": 280, "wall_cap_s": 3300}


ARGLIT = {None: "", "integer": "1", "real": "1.0", "logical": ".true."}


# ----------------------------------------------------------------------------- model
def gen_model(ch: Chooser, excl=()):
    excl = set(excl)
    feats = set()
    nmod = ch.count(1, 5)
    shape = ch.choice(["random", "random", "chain", "dense"])
    hidden_mode = ch.bool(1, 4)          # display: public only -> private procedures are invisible
    mods = []
    for i in range(nmod):
        if shape == "chain":
            uses = [i - 1] if i else []
        else:
            num, den = (2, 3) if shape == "dense" else (1, 3)
            uses = [j for j in range(i) if ch.bool(num, den)]
        ext = [ch.choice(["ext_lib0", "ext_lib1"])] if ch.bool(1, 5) else []
        mods.append({"name": f"m{i}", "uses": uses, "ext": ext, "meta": {}})
    if "intrinsic_named_module" not in excl and ch.bool(1, 6):
        # the project's own module is named like one FORD knows as intrinsic / third-party (a serial MPI stub)
        ch.choice(mods)["name"] = ch.choice(["mpi", "omp_lib"])
    types, procs, generics, mpis, subs = [], [], [], [], []
    for i, m in enumerate(mods):
        for _ in range(ch.count(0, 3)):
            types.append({"name": f"t{len(types)}", "mod": i, "extends": None, "comps": [], "meta": {}})
        for _ in range(ch.count(0, 4)):
            procs.append({"name": f"p{len(procs)}", "mod": i, "argtype": None, "calls": [], "use": None,
                          "private": False, "meta": {}, "generic": None, "fn": False, "bound": None, "internals": []})
    # submodules and separate module procedures
    for i, m in enumerate(mods):
        if ch.bool(1, 3):
            mine = []
            for _ in range(ch.count(1, 3)):
                parent = ch.choice(mine)["name"] if (mine and ch.bool()) else None
                s = {"name": f"s{len(subs)}", "anc": i, "parent": parent, "uses": [j for j in range(i) if ch.bool(1, 4)], "meta": {}}
                subs.append(s)
                mine.append(s)
            for _ in range(ch.count(1, 2)):       # (gfortran writes no .smod for a module without one)
                mpis.append({"name": f"q{len(mpis)}", "mod": i, "sub": ch.choice(mine)["name"], "calls": [],
                             "form": ch.choice(["subroutine", "procedure"]), "meta": {}, "impl_meta": {}})
    # generic interfaces
    for i, m in enumerate(mods):
        cands = [p for p in procs if p["mod"] == i]
        if len(cands) >= 1 and ch.bool(1, 3):
            k = ch.count(1, min(3, len(cands)))
            spec = ch.shuffle(cands)[:k]
            for p, at in zip(spec, ["integer", "real", "logical"]):
                p["argtype"] = at
                p["generic"] = f"g{len(generics)}"
            generics.append({"name": f"g{len(generics)}", "mod": i, "specifics": [p["name"] for p in spec], "meta": {}})
    # type-bound procedures: simple bindings and generic bindings (targets are module procedures with a passed object)
    for t in types:
        t["binds"], t["gbinds"] = [], []
    if "bindings" not in excl:
        for t in types:
            cands = [p for p in procs if p["mod"] == t["mod"] and p["generic"] is None and p["bound"] is None]
            if not cands or not ch.bool(1, 3):
                continue
            k = ch.count(1, min(3, len(cands)))
            chosen = ch.shuffle(cands)[:k]
            for p in chosen:
                p["bound"] = {"type": t["name"], "extra": None}
                t["binds"].append({"name": f"b{p['name']}", "target": p["name"]})
            if k >= 2 and ch.bool(1, 2):
                for p, at in zip(chosen[:2], ["integer", "real"]):
                    p["bound"]["extra"] = at
                t["gbinds"].append({"name": f"gb{t['name']}", "specs": [b["name"] for b in t["binds"][:2]]})
    # functions (referenced in expressions instead of CALL)
    for p in procs:
        if p["generic"] is None and p["bound"] is None and ch.bool(1, 4):
            p["fn"] = True
    # internal procedures
    if "internals" not in excl:
        for p in procs:
            if ch.bool(1, 5):
                for _ in range(ch.count(1, 2)):
                    p["internals"].append({"name": f"i{sum(len(q['internals']) for q in procs)}", "calls": []})
    # types: extension and composition
    for k, t in enumerate(types):
        i = t["mod"]
        acc = [u for u in types if u["mod"] == i or u["mod"] in mods[i]["uses"]]
        # (a type with a generic binding is not extended: the inherited copy of the binding is a node of its own
        #  whose DOT id carries a sequence number that depends on processing order)
        earlier = [u for u in acc if types.index(u) < k and not u["gbinds"]]
        if earlier and ch.bool(1, 2):
            t["extends"] = ch.choice(earlier)["name"]
        for c in range(ch.count(0, 3)):
            t["comps"].append([f"c{k}x{c}", ch.choice(acc)["name"], ch.choice(["type", "class"])])
    # top-level procedures, programs, block data
    tops, progs, bds = [], [], []
    for _ in range(ch.count(0, 2)):
        tops.append({"name": f"x{len(tops)}", "uses": [j for j in range(nmod) if ch.bool(1, 3)], "calls": [], "meta": {}})
    for _ in range(ch.count(0, 2)):
        progs.append({"name": f"prog{len(progs)}", "uses": [j for j in range(nmod) if ch.bool(1, 2)], "calls": [], "meta": {}})
    for _ in range(ch.count(0, 1)):
        bds.append({"name": f"bd{len(bds)}", "uses": [j for j in range(nmod) if ch.bool(1, 2)], "meta": {}})
    # hidden procedures
    if hidden_mode:
        for p in procs:
            if p["generic"] is None and p["bound"] is None and ch.bool(1, 3):
                p["private"] = True
                feats.add("hidden-procedure")
    # calls
    call_tops = "toplevel_calls" not in excl

    def targets(modset, own_mod=None):
        out = []
        for p in procs:
            if p["bound"] is not None:
                continue
            if p["mod"] == own_mod or (p["mod"] in modset and not p["private"]):
                out.append(("proc", p["name"]))
        for t in types:
            if t["mod"] == own_mod or t["mod"] in modset:
                for b in t["binds"]:
                    if not any(b["name"] in g["specs"] for g in t["gbinds"]):
                        out.append(("bind", t["name"] + "%" + b["name"]))
                for g in t["gbinds"]:
                    out.append(("gbind", t["name"] + "%" + g["name"]))
        for g in generics:
            if g["mod"] == own_mod or g["mod"] in modset:
                out.append(("generic", g["name"]))
        for q in mpis:
            if q["mod"] == own_mod or q["mod"] in modset:
                out.append(("mpi", q["name"]))
        if call_tops:
            for x in tops:
                out.append(("top", x["name"]))
        out.append(("ext", "ext_sub0"))
        out.append(("ext", "ext_sub1"))
        return out

    def pick_calls(tg, dense):
        n = ch.count(0, 4 if dense else 2)
        out = []
        for _ in range(n):
            c = ch.choice(tg)
            if c not in out:
                out.append(c)
        return [list(c) for c in out]

    dense_calls = ch.bool(1, 2)
    for p in procs:
        i = p["mod"]
        if i and ch.bool(1, 5):
            p["use"] = ch.int(i)
        modset = set(mods[i]["uses"]) | ({p["use"]} if p["use"] is not None else set())
        p["calls"] = pick_calls(targets(modset, i), dense_calls)
        for q in p["internals"]:
            q["calls"] = pick_calls(targets(modset, i) + [("internal", x["name"]) for x in p["internals"]], dense_calls)
            p["calls"].append(["internal", q["name"]]) if ch.bool(3, 4) else None
    for q in mpis:
        i = q["mod"]
        s = next(s for s in subs if s["name"] == q["sub"])
        modset = set(mods[i]["uses"]) | set(s["uses"])
        # (the implementation does not call separate module procedures: which of interface / implementation a
        #  reference inside the defining submodule denotes is not part of this property)
        q["calls"] = [c for c in pick_calls(targets(modset, i), dense_calls) if c[0] != "mpi"]
    for x in tops:
        x["calls"] = [c for c in pick_calls(targets(set(x["uses"])), dense_calls) if c[1] != x["name"] or True]
    for g in progs:
        g["calls"] = pick_calls(targets(set(g["uses"])), dense_calls)
    # metadata
    ents = mods + types + procs + generics + subs + tops + progs + bds
    off_mode = ch.bool(1, 3) and "graph_false" not in excl
    for e in ents:
        if e in procs and e["private"]:
            continue
        if off_mode and ch.bool(1, 5):
            e["meta"]["graph"] = "false"
            feats.add("meta-graph-false")
        elif ch.bool(1, 10):
            e["meta"]["graph_maxdepth"] = ch.choice([1, 2])
            feats.add("meta-maxdepth")
        elif ch.bool(1, 10):
            e["meta"]["graph_maxnodes"] = ch.choice([1, 2, 3])
            feats.add("meta-maxnodes")
    # files
    nfiles = ch.count(1, 4)
    placement = {}
    units = [("module", m["name"]) for m in mods] + [("submodule", s["name"]) for s in subs] + \
            [("top", x["name"]) for x in tops] + [("program", g["name"]) for g in progs] + [("blockdata", b["name"]) for b in bds]
    for u in units:
        placement[u[0] + ":" + u[1]] = ch.int(nfiles)
    for k, g in enumerate(progs):          # one main program per file
        placement["program:" + g["name"]] = k
    nfiles = max(nfiles, len(progs))
    fnames = [f"f{i}.f90" for i in range(nfiles)]
    if nfiles >= 2 and "same_basename" not in excl and ch.bool(1, 4):
        # two source files with one base name, in different directories (FORD tells them apart as util.f90, util.f90~2)
        fnames[0], fnames[1] = "a/util.f90", "b/util.f90"
        feats.add("same-basename-files")
    options = {
        "graph_maxdepth": ch.weighted([(3, 10000), (2, 1), (2, 2), (1, 3)]),
        "graph_maxnodes": ch.weighted([(4, BIG), (1, 1), (1, 2), (1, 3), (2, 5)]),
        "show_proc_parent": ch.bool(),
        "coloured_edges": ch.bool(1, 4),
        "graph_dir": ch.bool(1, 4),
        "hidden_mode": hidden_mode,
        "proc_internals": ch.bool(2, 3),
    }
    return {"mods": mods, "types": types, "procs": procs, "generics": generics, "mpis": mpis, "subs": subs,
            "tops": tops, "progs": progs, "bds": bds, "placement": placement, "nfiles": nfiles, "fnames": fnames, "options": options}, feats


# ----------------------------------------------------------------------------- rendering
def meta_lines(meta, indent):
    return [f"{indent}!! {k}: {v}" for k, v in meta.items()]


def call_stmt(m, c):
    kind, name = c
    if kind == "proc":
        p = next(p for p in m["procs"] if p["name"] == name)
        if p.get("fn"):
            return f"kres = {name}()"
        return f"call {name}({ARGLIT[p['argtype']]})"
    if kind == "bind":
        tname, bname = name.split("%")
        return f"call obj_{tname}%{bname}()"
    if kind == "gbind":
        tname, bname = name.split("%")
        t = next(t for t in m["types"] if t["name"] == tname)
        g = next(g for g in t["gbinds"] if g["name"] == bname)
        b = next(b for b in t["binds"] if b["name"] == g["specs"][0])
        p = next(p for p in m["procs"] if p["name"] == b["target"])
        return f"call obj_{tname}%{bname}({ARGLIT[p['bound']['extra']]})"
    if kind == "generic":
        g = next(g for g in m["generics"] if g["name"] == name)
        p = next(p for p in m["procs"] if p["name"] == g["specifics"][0])
        return f"call {name}({ARGLIT[p['argtype']]})"
    return f"call {name}()"


def local_decls(m, calls, indent):
    """declarations a caller needs for its calls: objects for type-bound calls, a result variable for functions"""
    out = []
    seen = set()
    for c in calls:
        if c[0] in ("bind", "gbind"):
            tname = c[1].split("%")[0]
            if tname not in seen:
                seen.add(tname)
                out.append(f"{indent}type({tname}) :: obj_{tname}")
        if c[0] == "proc" and "kres" not in seen and next(p for p in m["procs"] if p["name"] == c[1]).get("fn"):
            seen.add("kres")
            out.append(f"{indent}integer :: kres")
    return out


def render(m):
    mods = m["mods"]
    nfiles = m["nfiles"]
    chunks = {i: [] for i in range(nfiles)}

    def use_lines(idx, ext=(), indent="  "):
        return [f"{indent}use {mods[j]['name']}" for j in idx] + [f"{indent}use {e}" for e in ext]

    for i, mod in enumerate(mods):
        L = [f"module {mod['name']}"] + meta_lines(mod["meta"], "  ") + use_lines(mod["uses"], mod["ext"])
        L.append("  implicit none")
        priv = [p["name"] for p in m["procs"] if p["mod"] == i and p["private"]]
        if priv:
            L.append("  private :: " + ", ".join(priv))
        for t in m["types"]:
            if t["mod"] != i:
                continue
            head = f"  type, extends({t['extends']}) :: {t['name']}" if t["extends"] else f"  type :: {t['name']}"
            L.append(head)
            L += meta_lines(t["meta"], "    ")
            for cname, target, kw in t["comps"]:
                L.append(f"    {kw}({target}), pointer :: {cname}")
            if t.get("binds"):
                L.append("  contains")
                for b in t["binds"]:
                    L.append(f"    procedure :: {b['name']} => {b['target']}")
                for g in t.get("gbinds", []):
                    L.append(f"    generic :: {g['name']} => " + ", ".join(g["specs"]))
            L.append(f"  end type {t['name']}")
        for g in m["generics"]:
            if g["mod"] != i:
                continue
            L.append(f"  interface {g['name']}")
            L += meta_lines(g["meta"], "    ")
            L.append("    module procedure " + ", ".join(g["specifics"]))
            L.append(f"  end interface {g['name']}")
        qs = [q for q in m["mpis"] if q["mod"] == i]
        if qs:
            L.append("  interface")
            for q in qs:
                L.append(f"    module subroutine {q['name']}()")
                L += meta_lines(q["meta"], "      ")
                L.append(f"    end subroutine {q['name']}")
            L.append("  end interface")
        ps = [p for p in m["procs"] if p["mod"] == i]
        if ps:
            L.append("contains")
        for p in ps:
            rec = "recursive "
            args = []
            if p.get("bound"):
                args.append("self")
                if p["bound"]["extra"]:
                    args.append("a")
            elif p["argtype"]:
                args.append("a")
            word = "function" if p.get("fn") else "subroutine"
            L.append(f"  {rec}{'integer ' if p.get('fn') else ''}{word} {p['name']}({', '.join(args)})" if not p.get("fn")
                     else f"  {rec}function {p['name']}() result(res)")
            L += meta_lines(p["meta"], "    ")
            if p["use"] is not None:
                L.append(f"    use {mods[p['use']]['name']}")
            if p.get("fn"):
                L.append("    integer :: res")
            if p.get("bound"):
                L.append(f"    class({p['bound']['type']}), intent(in) :: self")
                if p["bound"]["extra"]:
                    L.append(f"    {p['bound']['extra']}, intent(in) :: a")
            elif p["argtype"]:
                L.append(f"    {p['argtype']} :: a")
            L += local_decls(m, p["calls"], "    ")
            if p.get("fn"):
                L.append("    res = 0")
            for c in p["calls"]:
                L.append("    " + call_stmt(m, c))
            if p.get("internals"):
                L.append("  contains")
                for q in p["internals"]:
                    L.append(f"    recursive subroutine {q['name']}()")
                    L += local_decls(m, q["calls"], "      ")
                    for c in q["calls"]:
                        L.append("      " + call_stmt(m, c))
                    L.append(f"    end subroutine {q['name']}")
            L.append(f"  end {word} {p['name']}")
        L.append(f"end module {mod['name']}")
        chunks[m["placement"]["module:" + mod["name"]]].append((0, i, L))
    for k, s in enumerate(m["subs"]):
        anc = mods[s["anc"]]["name"]
        par = f"{anc}:{s['parent']}" if s["parent"] else anc
        L = [f"submodule ({par}) {s['name']}"] + meta_lines(s["meta"], "  ") + use_lines(s["uses"])
        qs = [q for q in m["mpis"] if q["sub"] == s["name"]]
        if qs:
            L.append("contains")
        for q in qs:
            if q["form"] == "subroutine":
                L.append(f"  module subroutine {q['name']}()")
            else:
                L.append(f"  module procedure {q['name']}")
            L += meta_lines(q["impl_meta"], "    ")
            L += local_decls(m, q["calls"], "    ")
            for c in q["calls"]:
                L.append("    " + call_stmt(m, c))
            L.append(f"  end subroutine {q['name']}" if q["form"] == "subroutine" else f"  end procedure {q['name']}")
        L.append(f"end submodule {s['name']}")
        chunks[m["placement"]["submodule:" + s["name"]]].append((1, k, L))
    for k, x in enumerate(m["tops"]):
        L = [f"recursive subroutine {x['name']}()"] + meta_lines(x["meta"], "  ") + use_lines(x["uses"])
        L += local_decls(m, x["calls"], "  ")
        L += ["  " + call_stmt(m, c) for c in x["calls"]]
        L.append(f"end subroutine {x['name']}")
        chunks[m["placement"]["top:" + x["name"]]].append((2, k, L))
    for k, g in enumerate(m["progs"]):
        L = [f"program {g['name']}"] + meta_lines(g["meta"], "  ") + use_lines(g["uses"])
        L += local_decls(m, g["calls"], "  ")
        L += ["  " + call_stmt(m, c) for c in g["calls"]]
        L.append(f"end program {g['name']}")
        chunks[m["placement"]["program:" + g["name"]]].append((3, k, L))
    for k, b in enumerate(m["bds"]):
        L = [f"block data {b['name']}"] + meta_lines(b["meta"], "  ") + use_lines(b["uses"])
        L.append(f"end block data {b['name']}")
        chunks[m["placement"]["blockdata:" + b["name"]]].append((4, k, L))
    files = {}
    for i in range(nfiles):
        if chunks[i]:
            body = []
            for _, _, L in sorted(chunks[i], key=lambda c: (c[0], c[1])):
                body += L + [""]
            files["src/" + m.get("fnames", [f"f{j}.f90" for j in range(nfiles)])[i]] = "\n".join(body)
    return files


# ----------------------------------------------------------------------------- reference relations
class Ref:
    """The four relations of the model, as adjacency lists of edges (tail, head, style, label)."""

    def __init__(self, m):
        self.m = m
        o = m["options"]
        self.U, self.T, self.C, self.F = {}, {}, {}, {}
        self.F_optional = set()
        self.labels = {}
        self.meta = {}
        self.fileof = {}
        mods = m["mods"]
        spp = o["show_proc_parent"]

        def add(rel, tail, head, style, label=None):
            e = (tail, head, style, label)
            if e not in rel.setdefault(tail, []):
                rel[tail].append(e)
            rel.setdefault(head, [])

        def fname(key):
            return m["fnames"][m["placement"][key]] if m.get("fnames") else f"f{m['placement'][key]}.f90"

        # ---- USE + ancestry
        for i, mod in enumerate(mods):
            n = "module~" + mod["name"]
            self.labels[n] = mod["name"]
            self.meta[n] = mod["meta"]
            self.U.setdefault(n, [])
            for j in mod["uses"]:
                add(self.U, n, "module~" + mods[j]["name"], "dashed")
            for e in mod["ext"]:
                add(self.U, n, e, "dashed")
                self.labels[e] = e
        for s in m["subs"]:
            n = "module~" + s["name"]
            self.labels[n] = s["name"]
            self.meta[n] = s["meta"]
            self.U.setdefault(n, [])
            for j in s["uses"]:
                add(self.U, n, "module~" + mods[j]["name"], "dashed")
            add(self.U, n, "module~" + (s["parent"] or mods[s["anc"]]["name"]), "solid")
        for kind, lst in (("proc", m["tops"]), ("program", m["progs"]), ("blockdata", m["bds"])):
            for x in lst:
                n = f"{kind}~{x['name']}"
                self.meta[n] = x["meta"]
                self.U.setdefault(n, [])
                for j in x["uses"]:
                    add(self.U, n, "module~" + mods[j]["name"], "dashed")
        # ---- types
        for t in m["types"]:
            n = "type~" + t["name"]
            self.labels[n] = t["name"]
            self.meta[n] = t["meta"]
            self.T.setdefault(n, [])
            by_target = {}
            for cname, target, _ in t["comps"]:
                by_target.setdefault(target, []).append(cname)
            for target, names in by_target.items():
                add(self.T, n, "type~" + target, "dashed", ", ".join(names))
            if t["extends"]:
                add(self.T, n, "type~" + t["extends"], "solid")
        # ---- calls
        hidden = {p["name"] for p in m["procs"] if p["private"] and o["hidden_mode"]}
        pbyname = {p["name"]: p for p in m["procs"]}
        ibyname = {q["name"]: (q, p) for p in m["procs"] for q in p.get("internals", [])}
        show_internals = o.get("proc_internals", True)
        tbyname = {t["name"]: t for t in m["types"]}
        self.owner = {}

        def node_of(c):
            kind, name = c
            # a call to a top-level procedure of the project has no visible declaration in the caller: the callee
            # stays plain text (properties C07/C08), i.e. a node named like the routine, not the documented entity
            if kind == "bind":
                # a simple binding is not a node: the call is shown as a call of the procedure it is bound to
                tname, bname = name.split("%")
                return "proc~" + next(b for b in tbyname[tname]["binds"] if b["name"] == bname)["target"]
            if kind == "gbind":
                return "none~" + name.split("%")[1]
            if kind == "internal":
                return "none~" + name
            return {"proc": "proc~", "generic": "interface~", "mpi": "interface~", "top": "", "ext": ""}[kind] + name

        def visible_callees(calls, seen):
            out = []
            for c in calls:
                c = tuple(c)
                if c in seen:
                    continue
                seen.add(c)
                if c[0] == "proc" and c[1] in hidden:
                    out += visible_callees(pbyname[c[1]]["calls"], seen)
                elif c[0] == "internal" and (not show_internals or ibyname[c[1]][1]["name"] in hidden):
                    # (an internal procedure of a procedure that is not displayed is not displayed either)
                    out += visible_callees(ibyname[c[1]][0]["calls"], seen)
                else:
                    out.append(c)
            return out

        def plabel(parent, name):
            return (f"{parent}::" if spp else "") + name

        for p in m["procs"]:
            if p["name"] in hidden:
                continue
            n = "proc~" + p["name"]
            self.labels[n] = plabel(mods[p["mod"]]["name"], (p["bound"]["type"] + "%" if p.get("bound") else "") + p["name"])
            self.meta[n] = p["meta"]
            self.C.setdefault(n, [])
            self.U.setdefault(n, [])
            if p["use"] is not None:
                add(self.U, n, "module~" + mods[p["use"]]["name"], "dashed")
            for c in visible_callees(p["calls"], set()):
                add(self.C, n, node_of(c), "solid")
            if show_internals:
                for q in p.get("internals", []):
                    qn = "none~" + q["name"]
                    self.labels[qn] = plabel(p["name"], q["name"])
                    self.owner[qn] = n
                    self.C.setdefault(qn, [])
                    for c in visible_callees(q["calls"], set()):
                        add(self.C, qn, node_of(c), "solid")
        for t in m["types"]:
            for g in t.get("gbinds", []):
                gn = "none~" + g["name"]
                self.labels[gn] = plabel(mods[t["mod"]]["name"], t["name"] + "%" + g["name"])
                self.owner[gn] = "type~" + t["name"]
                self.C.setdefault(gn, [])
                for bname in g["specs"]:
                    target = next(b for b in t["binds"] if b["name"] == bname)["target"]
                    add(self.C, gn, "proc~" + target, "dashed")
        for g in m["generics"]:
            n = "interface~" + g["name"]
            self.labels[n] = plabel(mods[g["mod"]]["name"], g["name"])
            self.meta[n] = g["meta"]
            self.C.setdefault(n, [])
            for sname in g["specifics"]:
                add(self.C, n, "proc~" + sname, "dashed")
        for q in m["mpis"]:
            n = "interface~" + q["name"]
            impl = "proc~" + q["name"]
            self.labels[n] = plabel(mods[q["mod"]]["name"], q["name"])
            self.labels[impl] = plabel(q["sub"], q["name"])
            self.meta[n] = q["meta"]
            self.meta[impl] = q["impl_meta"]
            self.C.setdefault(n, [])
            if o["hidden_mode"]:
                # entities of a submodule are not public: with `display: public` the implementation is not documented
                del self.labels[impl], self.meta[impl]
                continue
            self.C.setdefault(impl, [])
            add(self.C, n, impl, "dashed")
            for c in visible_callees(q["calls"], set()):
                add(self.C, impl, node_of(c), "solid")
        for x in m["tops"]:
            n = "proc~" + x["name"]
            self.labels[n] = plabel(fname("top:" + x["name"]).rsplit("/", 1)[-1], x["name"])
            self.labels[x["name"]] = x["name"]
            self.C.setdefault(n, [])
            for c in visible_callees(x["calls"], set()):
                add(self.C, n, node_of(c), "solid")
        for g in m["progs"]:
            n = "program~" + g["name"]
            self.labels[n] = g["name"]
            self.C.setdefault(n, [])
            for c in visible_callees(g["calls"], set()):
                add(self.C, n, node_of(c), "solid")
        for b in m["bds"]:
            self.labels["blockdata~" + b["name"]] = b["name"]
        for e in ("ext_sub0", "ext_sub1"):
            self.labels[e] = e
        # ---- files
        modfile = {mod["name"]: fname("module:" + mod["name"]) for mod in mods}
        subfile = {s["name"]: fname("submodule:" + s["name"]) for s in m["subs"]}
        used_files = set(modfile.values()) | set(subfile.values())
        for key in m["placement"]:
            used_files.add(fname(key))
        for f in used_files:
            n = "sourcefile~" + f
            self.F.setdefault(n, [])
            self.labels[n] = f.rsplit("/", 1)[-1]
            self.meta[n] = {}

        def dep(a, b):
            if a != b:
                add(self.F, "sourcefile~" + a, "sourcefile~" + b, "dashed")

        for i, mod in enumerate(mods):
            a = modfile[mod["name"]]
            for j in mod["uses"]:
                dep(a, modfile[mods[j]["name"]])
            for p in m["procs"]:
                if p["mod"] == i and p["use"] is not None:
                    dep(a, modfile[mods[p["use"]]["name"]])
        for s in m["subs"]:
            a = subfile[s["name"]]
            for j in s["uses"]:
                dep(a, modfile[mods[j]["name"]])
            if s["parent"]:
                dep(a, subfile[s["parent"]])
                b = modfile[mods[s["anc"]]["name"]]
                if a != b and ("sourcefile~" + a, "sourcefile~" + b, "dashed", None) not in self.F["sourcefile~" + a]:
                    self.F_optional.add(("sourcefile~" + a, "sourcefile~" + b))
            else:
                dep(a, modfile[mods[s["anc"]]["name"]])
        for kind, lst in (("top", m["tops"]), ("program", m["progs"]), ("blockdata", m["bds"])):
            for x in lst:
                a = fname(kind + ":" + x["name"])
                for j in x["uses"]:
                    dep(a, modfile[mods[j]["name"]])

    @staticmethod
    def inverse(rel):
        inv = {n: [] for n in rel}
        for n, es in rel.items():
            for e in es:
                inv.setdefault(e[1], []).append(e)
        return inv


def ball(root, rel, inverse, maxdepth, maxnodes):
    """Hop-wise BFS.  rel: node -> edges leaving it (or entering it when inverse).
    -> dict(nodes, required, allowed, table, truncated)"""
    def nbrs(n):
        return [((e[0] if inverse else e[1]), e) for e in rel.get(n, [])]
    seen = [root]
    frontier = [root]
    required = []
    table = None
    truncated = False
    depth = 0
    while True:
        depth += 1
        new, edges = [], []
        for n in frontier:
            for nb, e in nbrs(n):
                if e not in edges:
                    edges.append(e)
                if nb not in seen and nb not in new:
                    new.append(nb)
        if len(new) + len(seen) > maxnodes:
            if depth == 1:
                table = sorted(new)
            truncated = True
            break
        required += [e for e in edges if e not in required]
        seen += new
        if not new:
            break
        if depth >= maxdepth:
            # anything beyond?
            truncated = any(nb not in seen for n in new for nb, _ in nbrs(n)) or \
                any(e not in required for n in new for _, e in nbrs(n))
            break
        frontier = new
    allowed = []
    for n in seen:
        for nb, e in nbrs(n):
            if nb in seen and e not in allowed:
                allowed.append(e)
    return {"nodes": sorted(seen), "required": [list(e) for e in required], "allowed": [list(e) for e in allowed],
            "table": table, "truncated": truncated}


def expectations(m):
    ref = Ref(m)
    o = m["options"]
    exp = {"graphs": {}, "labels": ref.labels, "nograph": [], "project": None, "f_optional": [list(x) for x in ref.F_optional]}
    Uinv, Tinv, Cinv, Finv = (Ref.inverse(r) for r in (ref.U, ref.T, ref.C, ref.F))

    def limits(n):
        meta = ref.meta.get(n, {})
        return max(0, int(meta.get("graph_maxdepth", o["graph_maxdepth"]))), max(1, int(meta.get("graph_maxnodes", o["graph_maxnodes"])))

    offset = {n for n, meta in ref.meta.items() if meta.get("graph") == "false"}
    declared_off = set(offset)
    # generic bindings of such a type / internal procedures of such a procedure are not registered either
    offset |= {n for n, owner in ref.owner.items() if owner in offset}

    def without_off(rel):
        return {n: [e for e in es if e[0] not in offset and e[1] not in offset] for n, es in rel.items() if n not in offset}

    def reach(root, rel, inverse):
        seen, stack = {root}, [root]
        while stack:
            x = stack.pop()
            for e in rel.get(x, []):
                nb = e[0] if inverse else e[1]
                if nb not in seen:
                    seen.add(nb)
                    stack.append(nb)
        return seen

    def per_entity(n, specs):
        if n in declared_off:
            exp["nograph"].append(n)
            return
        d, k = limits(n)
        out = {}
        for attr, rel, inv in specs:
            b = ball(n, rel, inv, d, k)
            if offset:
                # whether an entity with `graph: false` shows up in the graphs of *other* entities is not specified:
                # exact comparison only where both readings give the same graph
                b2 = ball(n, without_off(rel), inv, d, k)
                if (b["nodes"], sorted(map(str, b["required"])), b["table"]) != (b2["nodes"], sorted(map(str, b2["required"])), b2["table"]):
                    r = reach(n, rel, inv)
                    b = {"weak": True, "nodes": sorted(r), "maxnodes": k, "truncated": True, "table": None, "required": [],
                         "allowed": [list(e) for x in sorted(r) for e in rel.get(x, []) if e[0] in r and e[1] in r]}
            out[attr] = b
        exp["graphs"][n] = out

    for n in ref.U:
        kind = n.split("~")[0] if "~" in n else None
        if kind == "module":
            per_entity(n, [("usesgraph", ref.U, False), ("usedbygraph", Uinv, True)])
    for n in ref.T:
        per_entity(n, [("inhergraph", ref.T, False), ("inherbygraph", Tinv, True)])
    for n in ref.C:
        if n.startswith(("proc~", "interface~")):
            per_entity(n, [("callsgraph", ref.C, False), ("calledbygraph", Cinv, True), ("usesgraph", ref.U, False)])
        elif n.startswith("program~"):
            per_entity(n, [("callsgraph", ref.C, False), ("usesgraph", ref.U, False)])
    for b in m["bds"]:
        per_entity("blockdata~" + b["name"], [("usesgraph", ref.U, False)])
    for n in ref.F:
        per_entity(n, [("efferentgraph", ref.F, False), ("afferentgraph", Finv, True)])
    # ---- project-wide graphs (exact only when no node limit can bind)
    node_limit_free = o["graph_maxnodes"] == BIG and not any("graph_maxnodes" in meta for meta in ref.meta.values())
    off = set(exp["nograph"])

    def wide(roots, rel, flip=False, style=None):
        roots = [r for r in roots if r not in off]
        nodes = set(roots)
        edges = []
        for r in roots:
            for e in rel.get(r, []):
                if e[1] in off:
                    continue
                nodes.add(e[1])
                e = (e[0], e[1], style or e[2], e[3])
                edges.append([e[1], e[0], e[2], e[3]] if flip else list(e))
        return {"nodes": sorted(nodes), "edges": edges}

    if node_limit_free:
        uroots = [n for n in ref.U if n.startswith("module~")] + \
                 [n for n in ref.U if n.startswith(("proc~", "program~", "blockdata~")) and ref.U[n]]
        croots = [n for n in ref.C if n.startswith(("proc~", "interface~"))] + \
                 [n for n in ref.C if n.startswith("program~") and ref.C[n]] + \
                 [n for n in ref.C if n.startswith("none~") and ref.owner[n] not in off]
        exp["project"] = {
            "usegraph": wide(uroots, ref.U),
            "typegraph": wide([n for n in ref.T], ref.T),
            "callgraph": wide(croots, ref.C),
            "filegraph": wide([n for n in ref.F], ref.F),
        }
    cyc = has_cycle(ref.U) or has_cycle(ref.T) or has_cycle(ref.C) or has_diamond(ref.U) or has_diamond(ref.C) or has_diamond(ref.T)
    trunc = any(g["truncated"] for gs in exp["graphs"].values() for g in gs.values())
    return exp, cyc, trunc


def has_cycle(rel):
    color = {}

    def visit(n):
        color[n] = 1
        for e in rel.get(n, []):
            h = e[1]
            if color.get(h) == 1:
                return True
            if h not in color and visit(h):
                return True
        color[n] = 2
        return False
    return any(n not in color and visit(n) for n in list(rel))


def has_diamond(rel):
    for n in rel:
        reach = {}
        for e in rel[n]:
            stack = [e[1]]
            seen = set()
            while stack:
                x = stack.pop()
                if x in seen or x == n:
                    continue
                seen.add(x)
                stack += [f[1] for f in rel.get(x, [])]
            for x in seen:
                reach[x] = reach.get(x, 0) + 1
        if any(v >= 2 for v in reach.values()):
            return True
    return False


# ----------------------------------------------------------------------------- case
def gen_case(ch: Chooser, excl=()):
    m, feats = gen_model(ch, excl)
    files = render(m)
    o = m["options"]
    opts = {"project": "G", "src_dir": "./src", "graph": True, "parallel": 0, "preprocess": False,
            "graph_maxdepth": o["graph_maxdepth"], "graph_maxnodes": o["graph_maxnodes"],
            "show_proc_parent": o["show_proc_parent"], "coloured_edges": o["coloured_edges"], "search": False,
            "proc_internals": o.get("proc_internals", True),
            "display": ["public"] if o["hidden_mode"] else ["public", "private", "protected"]}
    if o["graph_dir"]:
        opts["graph_dir"] = "./graphs"
    files["project.md"] = site.project_file(opts)
    exp, cyc, trunc = expectations(m)
    classes = sorted(feats) + [f"maxdepth:{o['graph_maxdepth']}", f"maxnodes:{o['graph_maxnodes']}"]
    classes += [c for c, on in (("cycle-or-diamond", cyc), ("truncated", trunc), ("table-fallback", any(
        g["table"] for gs in exp["graphs"].values() for g in gs.values())), ("submodules", bool(m["subs"])),
        ("generic-interface", bool(m["generics"])), ("separate-module-procedure", bool(m["mpis"])),
        ("type-bound-binding", any(t.get("binds") for t in m["types"])), ("generic-binding", any(t.get("gbinds") for t in m["types"])),
        ("internal-procedure", any(p.get("internals") for p in m["procs"])), ("function-reference", any(p.get("fn") for p in m["procs"])),
        ("proc_internals", o.get("proc_internals", True)),
        ("graph_dir", o["graph_dir"]), ("show_proc_parent", o["show_proc_parent"]),
        ("project-graphs-exact", exp["project"] is not None)) if on]
    return {"files": files, "expected": exp, "graph_dir": bool(o["graph_dir"]), "classes": classes,
            "nontrivial": bool(cyc or trunc)}


def strategy(tier, excl):
    excl = tuple(excl)
    return from_bytes(lambda ch: gen_case(ch, excl), min_size=100, max_size=1500)


# ----------------------------------------------------------------------------- observation
NODE_RE = re.compile(r'^\t("(?:[^"\\]|\\.)*"|[^\s\[]+)(?: \[(.*)\])?$')
EDGE_RE = re.compile(r'^\t("(?:[^"\\]|\\.)*"|[^\s\[]+) -> ("(?:[^"\\]|\\.)*"|[^\s\[]+)(?: \[(.*)\])?$')
ATTR_RE = re.compile(r'(\w+)=("(?:[^"\\]|\\.)*"|[^\s\]]+)')


def unq(s):
    if s.startswith('"') and s.endswith('"'):
        return re.sub(r"\\(.)", r"\1", s[1:-1])
    return s


def parse_dot(lines):
    nodes, edges = {}, []
    for ln in lines:
        ln = ln.rstrip("\n")
        if not ln.strip() or ln.startswith("\tgraph [") or ln.startswith("\tnode [") or ln.startswith("\tedge ["):
            continue
        me = EDGE_RE.match(ln)
        if me:
            attrs = {k: unq(v) for k, v in ATTR_RE.findall(me.group(3) or "")}
            edges.append((unq(me.group(1)), unq(me.group(2)), attrs.get("style"), attrs.get("label")))
            continue
        mn = NODE_RE.match(ln)
        if mn:
            attrs = {k: unq(v) for k, v in ATTR_RE.findall(mn.group(2) or "")}
            nodes[unq(mn.group(1))] = attrs
            continue
        raise ValueError(f"unparsed DOT line: {ln!r}")
    return nodes, edges


def ford_key(obj):
    return f"{obj.get_dir() or 'none'}~{obj.ident}"


def norm_label(lbl):
    return None if lbl is None else ", ".join(sorted(x.strip() for x in lbl.split(",")))


def compare(res, what, expected, nodes, edges, labels, f_optional=()):
    """nodes: dict id -> attrs; edges: list of (tail, head, style, label)"""
    want_nodes = set(expected["nodes"])
    got_nodes = set(nodes)
    kind = what.split(":")[0]
    trunc = ":truncated" if expected.get("truncated") else ""
    if expected.get("weak"):
        trunc = ":weak"
        if len(got_nodes) > expected["maxnodes"]:
            res.fail(f"too-many-nodes:{kind}", f"{what}: {len(got_nodes)} nodes drawn, graph_maxnodes is {expected['maxnodes']}")
    for n in sorted(() if expected.get("weak") else want_nodes - got_nodes):
        res.fail(f"node-missing:{kind}{trunc}", f"{what}: node {n} is missing; drawn {sorted(got_nodes)}")
    for n in sorted(got_nodes - want_nodes):
        res.fail(f"node-unexpected:{kind}{trunc}", f"{what}: node {n} is drawn but is not in the reference {sorted(want_nodes)}")
    if kind in ("filegraph", "afferentgraph", "efferentgraph"):
        edges = [(t, h, "dashed", lb) for t, h, s, lb in edges]
    got_edges = {(t, h, s, norm_label(lb)) for t, h, s, lb in edges}
    for t, h, _, _ in got_edges:
        if t not in got_nodes or h not in got_nodes:
            res.fail(f"dangling-edge:{kind}", f"{what}: edge {t} -> {h} joins a node that is not in the graph")
    required = {(t, h, s, norm_label(lb)) for t, h, s, lb in expected.get("required", expected.get("edges", []))}
    allowed = {(t, h, s, norm_label(lb)) for t, h, s, lb in expected.get("allowed", expected.get("edges", []))}
    opt = {tuple(x) for x in f_optional}
    for e in sorted(required - got_edges, key=str):
        res.fail(f"edge-missing:{kind}{trunc}", f"{what}: edge {e[0]} -> {e[1]} ({e[2]}, label {e[3]}) is missing; drawn {sorted(got_edges, key=str)}")
    for e in sorted(got_edges - allowed, key=str):
        if (e[0], e[1]) in opt:
            continue
        # same endpoints, other style/label?
        same = [a for a in allowed if a[:2] == e[:2]]
        if same:
            res.fail(f"edge-style:{kind}", f"{what}: edge {e[0]} -> {e[1]} drawn as ({e[2]}, {e[3]}), reference {same}")
        elif (e[1], e[0]) in {a[:2] for a in allowed}:
            res.fail(f"edge-reversed:{kind}", f"{what}: edge {e[0]} -> {e[1]} is drawn in the opposite direction of the relation")
        else:
            res.fail(f"edge-unexpected:{kind}{trunc}", f"{what}: edge {e[0]} -> {e[1]} ({e[2]}) is not in the relation restricted to the ball")
    for n in sorted(got_nodes & want_nodes):
        lb = nodes[n].get("label")
        if n in labels and lb is not None and lb != labels[n]:
            res.fail(f"label:{kind}", f"{what}: node {n} labelled {lb!r}, expected {labels[n]!r}")


ATTRS = ("usesgraph", "usedbygraph", "inhergraph", "inherbygraph", "callsgraph", "calledbygraph", "afferentgraph", "efferentgraph")
FORWARD_INVERSE = [("usesgraph", "usedbygraph", ("module",)), ("inhergraph", "inherbygraph", ("type",)),
                   ("callsgraph", "calledbygraph", ("proc", "interface")), ("efferentgraph", "afferentgraph", ("sourcefile",))]
SVG_NODE = re.compile(r'<g id="[^"]*node\d+" class="node">\s*<title>(.*?)</title>', re.S)
TABLE_NODE = re.compile(r'<td rowspan="2" class="node"[^>]*>(?:<a href="[^"]*">)?(.*?)(?:</a>)?</td>', re.S)


def check(case) -> Result:
    res = Result(nontrivial=case.get("nontrivial", False), classes=list(case.get("classes", [])))
    exp = case["expected"]
    res.sample = {"files": {k: v for k, v in case["files"].items()}}
    try:
        with fordapi.Sandbox(case["files"], prefix="vfw-c13-") as root:
            data, out = site.build_site(root)
            docs = site.CAPTURED["docs"]
            gm = docs.graphs
            project = docs.project
            labels = exp["labels"]
            objs = {}
            # files are known by their path below src (two files may share a base name; FORD numbers them)
            alias = {}
            for o in project.files:
                rel = os.path.relpath(os.path.realpath(str(o.path)), os.path.realpath(str(root / "src"))).replace(os.sep, "/")
                alias[ford_key(o)] = "sourcefile~" + rel
            for lst in (project.modules, project.submodules, project.types, project.procedures, project.submodprocedures,
                        project.programs, project.blockdata, project.files):
                for o in lst:
                    objs[alias.get(ford_key(o), ford_key(o))] = o
            parsed = {}
            for key, graphs in exp["graphs"].items():
                o = objs.get(key)
                if o is None:
                    res.fail("entity-missing", f"{key} is not a documented entity of the project ({sorted(objs)})")
                    continue
                for attr, want in graphs.items():
                    g = getattr(o, attr, None)
                    if g is None:
                        res.fail(f"graph-missing:{attr}", f"{key} has no {attr}")
                        continue
                    nodes, edges = parse_dot(g.dot.body)
                    nodes = {alias.get(k, k): v for k, v in nodes.items()}
                    edges = [(alias.get(t, t), alias.get(h, h), st, lb) for t, h, st, lb in edges]
                    parsed[(key, attr)] = (nodes, edges, want)
                    compare(res, f"{attr}:{key}", want, nodes, edges, labels,
                            exp["f_optional"] if attr in ("afferentgraph", "efferentgraph") else ())
                    rendered = str(g)
                    if want.get("weak"):
                        pass
                    elif want["table"]:
                        if '<table class="graph">' not in rendered:
                            res.fail(f"table-missing:{attr}", f"{attr}:{key}: the first hop {want['table']} exceeds graph_maxnodes but no table is shown")
                        else:
                            got = sorted(set(html.unescape(x).strip() for x in TABLE_NODE.findall(rendered)))
                            wl = sorted(set(labels.get(n, n) for n in want["table"]))
                            rootl = labels.get(key, key)
                            if [x for x in got if x != rootl] != [x for x in wl if x != rootl]:
                                res.fail(f"table-content:{attr}", f"{attr}:{key}: table lists {got}, first-hop neighbours are {wl}")
                    elif '<table class="graph">' in rendered:
                        res.fail(f"table-unexpected:{attr}", f"{attr}:{key}: shown as a table although the first hop fits graph_maxnodes")
                    # real SVG: the nodes dot drew are the nodes of the DOT text
                    if "<svg" in (g.svg_src or ""):
                        svg_nodes = sorted(alias.get(html.unescape(x), html.unescape(x)) for x in SVG_NODE.findall(g.svg_src))
                        if svg_nodes != sorted(nodes):
                            res.fail("svg-differs", f"{attr}:{key}: SVG nodes {svg_nodes} != DOT nodes {sorted(nodes)}")
                    if case.get("graph_dir"):
                        gv = root / "graphs" / (g.imgfile + ".gv")
                        if gv.exists() and gv.read_text() != g.dot.source:
                            res.fail("gv-differs", f"{gv.name} differs from the graph shown on the page")
            # graph: false
            for key in exp["nograph"]:
                o = objs.get(key)
                if o is None:
                    continue
                for attr in ATTRS:
                    g = getattr(o, attr, None)
                    if g:
                        res.fail("graph-false-ignored:entity", f"{key} has `graph: false` but its {attr} is generated")
                url = o.get_url() if hasattr(o, "get_url") else None
            # forward / inverse, independently of the model (untruncated graphs only)
            for fwd, inv, kinds in FORWARD_INVERSE:
                for (key, attr), (nodes, edges, want) in parsed.items():
                    if attr != fwd or want["truncated"]:
                        continue
                    for t, h, s, lb in edges:
                        if t != key or (h, inv) not in parsed or h == key:
                            continue
                        n2, e2, w2 = parsed[(h, inv)]
                        if w2["truncated"]:
                            continue
                        if (t, h) not in {(a, b) for a, b, _, _ in e2}:
                            res.fail(f"inverse-mismatch:{inv}", f"{fwd} of {key} has {t} -> {h}, {inv} of {h} does not")
                for (key, attr), (nodes, edges, want) in parsed.items():
                    if attr != inv or want["truncated"]:
                        continue
                    for t, h, s, lb in edges:
                        if h != key or (t, fwd) not in parsed or t == key:
                            continue
                        n2, e2, w2 = parsed[(t, fwd)]
                        if w2["truncated"]:
                            continue
                        if (t, h) not in {(a, b) for a, b, _, _ in e2}:
                            res.fail(f"inverse-mismatch:{fwd}", f"{inv} of {key} has {t} -> {h}, {fwd} of {t} does not")
            # project-wide graphs
            for name in ("usegraph", "typegraph", "callgraph", "filegraph"):
                g = getattr(gm, name)
                nodes, edges = parse_dot(g.dot.body)
                nodes = {alias.get(k, k): v for k, v in nodes.items()}
                edges = [(alias.get(t, t), alias.get(h, h), st, lb) for t, h, st, lb in edges]
                for key in exp["nograph"]:
                    if key in nodes:
                        res.fail(f"graph-false-ignored:{name}", f"{key} has `graph: false` but is a node of the project-wide {name}")
                for t, h, _, _ in edges:
                    if t not in nodes or h not in nodes:
                        res.fail(f"dangling-edge:{name}", f"{name}: edge {t} -> {h} joins a node that is not in the graph")
                if exp["project"] is not None and str(g):
                    compare(res, f"{name}:project", exp["project"][name], nodes, edges, labels,
                            exp["f_optional"] if name == "filegraph" else ())
    except SystemExit as e:
        res.fail("HARNESS:ford-exited", str(e))
    except Exception as e:
        res.fail("build:" + fordapi.exception_signature(e), f"{type(e).__name__}: {str(e)[:300]}")
    if res.failures and not any(f.signature.startswith("HARNESS") for f in res.failures):
        ok, err = fordapi.gfortran_check({k: v for k, v in case["files"].items() if k.endswith(".f90")},
                                         extra_stub=STUBS)
        if not ok:
            res.failures = []
            res.fail("HARNESS:gfortran-rejects-generated-program", err[-600:])
    return res


STUBS = "module ext_lib0\nend module ext_lib0\nmodule ext_lib1\nend module ext_lib1\n"
