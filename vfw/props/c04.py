"""C04 - accessibility of every entity follows Fortran's PUBLIC/PRIVATE rules.

Exhaustive product: scope default {none, public, private} x position of that statement
{early, late} x explicit access {none, attribute, access statement before / after the
declaration; public / private / protected} x entity kind, each point embedded in several
generated context modules.  Oracle: permission reported by FORD == reference accessibility
(vfw.model.canon_*: default unless overridden, wherever the statements stand), for the
enumerated entity and for all context entities.
"""
from __future__ import annotations

import hashlib
import itertools
import os

from vfw import extract, fordapi, gen, model, render
from vfw.choose import Chooser, from_bytes
from vfw.runner import Result

ID = "C04"
LEVEL = "exploration"
EXHAUSTIVE = True
TECHNIQUE = ("exhaustive enumeration of the access product space, each point embedded in generated context modules; "
             "oracle = reference accessibility function over the model")
RULE = ("case = one point of {default none/public/private} x {early, late} x {explicit access form} x {entity kind} "
        "(forbidden combinations removed) x context index, rendered as a module inside a generated project; every "
        "enumerated point is non-trivial by construction (distinct by construction); random cases (Hypothesis) add "
        "random points in larger random contexts and are non-trivial when default != explicit access")
ASSUMPTIONS = [
    "reference accessibility = F2008 5.3.2 / 4.5.2.2 / 4.5.5 as transcribed in vfw.model (default applies wherever the bare "
    "statement stands; explicit attribute or access statement overrides; type components / bindings use the type's own defaults)",
    "gfortran accepts every program behind a reported violation",
]
FORD_OPTS = dict(display=["public", "private", "protected"], proc_internals=True)

KINDS = ["variable", "parameter", "type", "subroutine", "function", "generic", "absinterface", "operator",
         "component", "binding", "binding2",        # binding2: two bindings declared by one statement
         "generic2",                                # generic2: one generic name extended by a second interface block
         "constructor",                             # constructor: a type and a generic interface of the same name
         "genericbody"]                             # genericbody: an interface body (external procedure) of a generic interface
DEFAULTS = [None, "public", "private"]
POSITIONS = ["early", "late"]


def hows_for(kind):
    hows = [None]
    if kind in ("variable", "parameter", "type", "constructor"):
        hows += [("attr", "public"), ("attr", "private")]
    if kind == "variable":
        hows += [("attr", "protected"), ("stmt_after", "protected"), ("stmt_before", "protected")]
    if kind in ("component", "binding", "binding2"):
        return [None, ("attr", "public"), ("attr", "private")]
    hows += [("stmt_before", "public"), ("stmt_before", "private"), ("stmt_after", "public"), ("stmt_after", "private")]
    return hows


def points():
    for kind in KINDS:
        for default in DEFAULTS:
            for pos in POSITIONS:
                if default is None and pos == "late":
                    continue
                if kind in ("component", "binding", "binding2") and (default == "public" or pos == "late"):
                    continue        # a type has only a bare PRIVATE, which must precede the components/bindings
                for how in hows_for(kind):
                    yield (kind, default, pos, how)


def budget(tier):
    if tier == "quick":
        return {"examples": 9600, "contexts": 6, "shrink_cap_s": 30}
    return {"examples": 48000, "contexts": 40, "shrink_cap_s": 200, "wall_cap_s": 3000}


def _var(name, ts, access=None, place=None, parameter=False, init=None):
    d = {"d": "var", "ts": ts, "attrs": [], "dimattr": None, "intent": None, "optional": False,
         "parameter": parameter, "access": access, "no_stmt": True,
         "ents": [{"name": name, "dim": None, "init": init, "points": False, "doc": None}]}
    if access:
        d["access_place"] = place
    return d


def build(kind, default, pos, how, ch, with_context=True, excl=()):
    g = gen.Gen(ch, {"docs": False, "late_access": False, "submodules": False, "excl": tuple(excl)})
    proj = {"files": [], "_submodule_jobs": []}
    if with_context:
        m = g.module(proj)
    else:
        m = {"k": "module", "name": "m_ctx", "uses": [], "decls": [], "procs": [], "doc": None}
    m["default_access"], m["access_pos"] = default, pos
    acc = how[1] if how else None
    where = how[0] if how else None
    place = {"attr": "decl", "stmt_before": "before", "stmt_after": "after"}.get(where)
    I = {"base": "integer", "kind": None}
    tname = "target_ent"
    decls = m["decls"]
    at = ch.int(len(decls) + 1)
    if kind == "variable":
        decls.insert(at, _var(tname, I, acc, place))
    elif kind == "parameter":
        decls.insert(at, _var(tname, I, acc, place, parameter=True, init="3"))
    elif kind == "type":
        decls.insert(at, {"d": "type", "name": tname, "abstract": False, "extends": None, "access": acc,
                          "access_how": where or "attr", "sequence": False, "private_comps": False,
                          "comps": [_var("c_in_target", I)], "private_binds": False, "binds": [], "finals": [], "doc": None})
    elif kind == "constructor":
        decls.insert(at, {"d": "type", "name": tname, "abstract": False, "extends": None, "access": acc,
                          "access_how": where or "attr", "sequence": False, "private_comps": False,
                          "comps": [_var("c_in_target", I)], "private_binds": False, "binds": [], "finals": [], "doc": None})
        T = {"base": "type", "proto": tname}
        ctor = {"k": "function", "name": "make_target", "args": ["a"], "prefix": [], "rettype": T, "decls": [_var("a", I)],
                "exec": ["make_target%c_in_target = a"], "procs": [], "uses": [], "doc": None}
        ctor["decls"][0]["intent"] = "in"
        m["procs"].append(ctor)
        # the generic name is the type's name: one identifier, one accessibility
        decls.insert(ch.int(len(decls) + 1), {"d": "interface", "form": "generic", "name": tname, "modprocs": ["make_target"],
                                              "bodies": [], "doc": None, "access": acc, "access_how": "attr"})
    elif kind in ("subroutine", "function"):
        p = {"k": kind, "name": tname, "args": [], "prefix": [], "decls": [], "exec": [], "procs": [], "uses": [],
             "doc": None, "access": acc, "access_how": where}
        if kind == "function":
            p["rettype"] = I
            p["exec"] = [f"{tname} = 1"]
        m["procs"].insert(ch.int(len(m["procs"]) + 1), p)
        if kind == "function" and "local_type_namesake" not in excl and ch.bool(1, 2):
            # another procedure of the module declares a type of that name for itself: this says nothing about the function
            m["procs"].append({"k": "subroutine", "name": "holder_of_local_type", "args": [], "prefix": [], "exec": [], "procs": [],
                               "uses": [], "doc": None, "access": None,
                               "decls": [{"d": "type", "name": tname, "abstract": False, "extends": None, "access": None,
                                          "access_how": "attr", "sequence": False, "private_comps": False,
                                          "comps": [_var("local_comp", I)], "private_binds": False, "binds": [],
                                          "finals": [], "doc": None}]})
    elif kind in ("generic", "operator", "generic2"):
        if kind in ("generic", "generic2"):
            spec = {"k": "subroutine", "name": "spec_of_target", "args": ["a"], "prefix": [], "decls": [_var("a", I)],
                    "exec": [], "procs": [], "uses": [], "doc": None}
            spec["decls"][0]["intent"] = "in"
            name = tname
        else:
            spec = {"k": "function", "name": "spec_of_target", "args": ["a", "b"], "prefix": [], "rettype": I,
                    "decls": [_var("a", I), _var("b", I)], "exec": ["spec_of_target = 1"], "procs": [], "uses": [], "doc": None}
            spec["decls"][0]["intent"] = spec["decls"][1]["intent"] = "in"
            name = "operator(.targetop.)"
        m["procs"].append(spec)
        decls.insert(at, {"d": "interface", "form": "generic", "name": name, "modprocs": ["spec_of_target"], "bodies": [],
                          "doc": None, "access": acc, "access_how": where})
        if kind == "generic2":
            R = {"base": "real", "kind": None}
            spec2 = {"k": "subroutine", "name": "spec2_of_target", "args": ["a"], "prefix": [], "decls": [_var("a", R)],
                     "exec": [], "procs": [], "uses": [], "doc": None}
            spec2["decls"][0]["intent"] = "in"
            m["procs"].append(spec2)
            # the access statement names the generic once; it holds for both blocks
            decls.insert(ch.int(len(decls) + 1), {"d": "interface", "form": "generic", "name": name, "modprocs": ["spec2_of_target"],
                                                  "bodies": [], "doc": None, "access": acc, "access_how": "attr"})
    elif kind == "absinterface":
        body = {"k": "subroutine", "name": tname, "args": [], "prefix": [], "decls": [], "doc": None,
                "access": acc, "access_how": where}
        decls.insert(at, {"d": "interface", "form": "abstract", "bodies": [body], "doc": None})
    elif kind == "genericbody":
        body = {"k": "subroutine", "name": tname, "args": ["a"], "prefix": [], "decls": [_var("a", I)], "doc": None,
                "access": acc, "access_how": where}
        body["decls"][0]["intent"] = "in"
        # the generic name's own accessibility is independent of the specific's
        g_acc = ch.choice([None, "private", "public"]) if with_context else ("private" if acc != "private" else "public")
        decls.insert(at, {"d": "interface", "form": "generic", "name": "gen_of_target", "modprocs": [], "bodies": [body],
                          "doc": None, "access": g_acc, "access_how": "stmt_after"})
    elif kind == "component":
        decls.insert(at, {"d": "type", "name": "t_holder", "abstract": False, "extends": None, "access": None,
                          "access_how": "attr", "sequence": False, "private_comps": default == "private",
                          "comps": [_var("other_comp", I), _var(tname, I, acc, "decl")], "private_binds": False,
                          "binds": [], "finals": [], "doc": None})
        m["default_access"] = ch.choice([None, "private", "public"]) if with_context else None
        m["access_pos"] = "early"
    elif kind in ("binding", "binding2"):
        impl = {"k": "subroutine", "name": "impl_of_target", "args": ["a"], "prefix": [], "decls": [_var("a", I)],
                "exec": [], "procs": [], "uses": [], "doc": None}
        impl["decls"][0]["intent"] = "in"
        m["procs"].append(impl)
        binds = [{"name": tname, "target": "impl_of_target", "generic": False, "deferred": False,
                  "iface": None, "attrs": ["nopass"], "access": acc, "doc": None}]
        if kind == "binding2":
            binds.append(dict(binds[0], name="target_ent2"))
        # the type's own accessibility is independent of its binding default
        t_acc = ch.choice([None, "private", "public"]) if with_context else ("private" if default != "private" else "public")
        decls.insert(at, {"d": "type", "name": "t_holder", "abstract": False, "extends": None, "access": t_acc,
                          "access_how": "attr", "sequence": False, "private_comps": False,
                          "comps": [_var("some_comp", I)], "private_binds": default == "private",
                          "binds": binds, "force_merge": kind == "binding2", "finals": [], "doc": None})
        m["default_access"] = ch.choice([None, "private", "public"]) if with_context else None
        m["access_pos"] = "early"
    gen.strip_private(m)
    proj = {"files": [{"path": "src/point.f90", "form": "free", "units": [m], "doc": None}]}
    return proj


def make_case(point, ch, with_context, excl=()):
    kind, default, pos, how = point
    proj = build(kind, default, pos, how, ch, with_context, excl)
    files, used = render.render_project(proj, ch, features={"comments": False})
    return {"point": [kind, default, pos, list(how) if how else None], "files": files,
            "expected": model.canon_project(proj),
            "nontrivial": True}


def enumerated(tier, excl):
    seed = os.environ.get("VERIF_SEED") or "1"
    n_ctx = budget(tier)["contexts"]
    for pi, point in enumerate(points()):
        for ci in range(n_ctx):
            if ci == 0:
                ch = Chooser(b"")
                c = make_case(point, ch, False, excl)
            else:
                data = b"".join(hashlib.sha256(f"{seed}|{pi}|{ci}|{k}".encode()).digest() for k in range(40))
                c = make_case(point, Chooser(data), True, excl)
            c["enum"] = True
            yield c


ALL_POINTS = list(points())


def gen_case(ch, excl=()):
    point = ch.choice(ALL_POINTS)
    c = make_case(point, ch, True, excl)
    kind, default, pos, how = point
    c["nontrivial"] = bool(how and default and how[1] != default)
    return c


def strategy(tier, excl):
    excl = tuple(excl)
    return from_bytes(lambda ch: gen_case(ch, excl), min_size=150, max_size=1500)


def perm_signature(path, point, msg):
    """Root-cause bucket for a permission mismatch."""
    import re
    # what kind of entity is at `path`?
    comps = [re.sub(r"\[.*?\]", "", c) for c in path.split("/")]
    leaf_coll = comps[-2] if len(comps) >= 2 else "?"
    return leaf_coll


def check(case) -> Result:
    kind, default, pos, how = case["point"]
    res = Result(nontrivial=case.get("nontrivial", True))
    res.classes = [f"kind:{kind}", f"default:{default}@{pos}", f"how:{how[0] + ':' + how[1] if how else None}"]
    if case.get("enum"):
        res.digest = "enum"
    res.sample = {"point": case["point"], "files": case["files"]}
    try:
        with fordapi.Sandbox(case["files"], prefix="vfw-c04-") as root:
            project, out = fordapi.parse_project(root, **FORD_OPTS)
            tree = extract.project_tree(project, root)
    except Exception as e:
        res.fail(fordapi.exception_signature(e), f"{type(e).__name__}: {e}")
        return res
    late = pos == "late" and default is not None
    for sig, msg in model.diff(case["expected"], tree):
        if sig.endswith(".permission"):
            coll = sig.split(".")[0]
            if late:
                res.fail(f"late-default-not-applied:{coll}", f"point={case['point']}: {msg}")
            else:
                res.fail(f"permission:{coll}", f"point={case['point']}: {msg}")
        elif sig.startswith(("missing:", "extra:")) or sig == "file-skipped":
            res.fail("tree:" + sig, f"point={case['point']}: {msg}")
        # other differences are C01's business
    if res.failures:
        ok, err = fordapi.gfortran_check(case["files"])
        if not ok:
            res.failures = []
            res.fail("HARNESS:gfortran-rejects-generated-program", err[-600:])
    return res
