"""C12 - output is a deterministic function of the inputs.

Generated: multi-file projects (several files define equally named procedures / types;
modules with two or more USE statements; a type extended by several types; mutual calls),
with graphs and search on.  Each project is built by `python -m ford` in subprocesses under
different schedules and histories: PYTHONHASHSEED values, permutations of the order in which
source files are enumerated (harness-owned), parallel = 0 / 2 / 8 with a graph_dir, output
directory absent / stale from another project / from the same project.
Oracle: byte-identical output trees.
"""
from __future__ import annotations

import hashlib
import itertools
import json
import os
import shutil
import subprocess
import sys
from pathlib import Path

from vfw import fordapi, site
from vfw.choose import Chooser, from_bytes
from vfw.runner import Result, VERIF

ID = "C12"
LEVEL = "exploration"
TECHNIQUE = ("property-based testing over schedules and histories: generated projects built repeatedly in subprocesses "
             "under varied hash seeds, harness-owned file enumeration orders, worker counts and stale output directories; "
             "oracle = byte comparison of the output trees")
RULE = ("case = generated project x set of (hash seed, file order, parallel, history) runs; non-trivial iff the project has "
        ">=3 files and >=1 name shared across files; distinct by SHA-1 of the sources")
ASSUMPTIONS = ["print_creation_date stays off (the only documented source of run-to-run difference)",
               "file enumeration order is modelled by re-ordering the result of find_all_files, directory enumeration "
               "order (static pages) by sorting the result of os.listdir ascending or descending"]
NAMES = ["solve", "init", "norm", "apply"]


def budget(tier):
    if tier == "quick":
        return {"examples": 32, "runs": 5, "no_shrink": True}
    return {"examples": 640, "runs": 9, "shrink_cap_s": 280, "wall_cap_s": 3300}


def gen_case(ch: Chooser, excl=()):
    n = ch.count(3, 5)
    same_base = ch.bool(1, 3)
    files = {}
    shared = False
    defined = {}       # module -> list of (procname)
    base_mod = None
    for i in range(n):
        m = f"mod{i}"
        lines = [f"module {m}", f"  !! Module number {i}."]
        uses = ch.shuffle(list(range(i)))[: ch.count(0, 3)]
        for u in uses:
            lines.append(f"  use mod{u}, only: " + ", ".join(f"{p}_{u} => {p}" for p in defined[u][:1]) if defined[u] else f"  use mod{u}")
        lines.append("  implicit none")
        lines.append(f"  integer :: marker{i} = {i}")
        if i == 0:
            lines += ["  type base_t", "    !! the base type", "    integer :: id", "  end type base_t"]
            base_mod = m
        elif ch.bool(2, 3):
            if 0 not in uses:
                lines.insert(2, "  use mod0, only: base_t")
            lines += [f"  type, extends(base_t) :: child{i}_t", f"    !! child number {i}", f"    integer :: extra{i}",
                      f"  end type child{i}_t"]
        if ch.bool(1, 2):
            lines += ["  type state_t", f"    !! state of {m}", "    real :: v", "  end type state_t"]
            shared = True
        lines.append("contains")
        procs = ch.shuffle(NAMES)[: ch.count(1, 3)]
        defined[i] = procs
        for p in procs:
            lines += [f"  subroutine {p}()", f"    !! {p} of {m}"]
            if uses and ch.bool(1, 3):
                u0 = ch.choice(sorted(uses))
                lines.append(f"    use mod{u0}, only: marker{u0}")      # a USE of its own (procedures have 'uses' graphs too)
            for q in procs:
                if q != p and ch.bool(1, 2):
                    lines.append(f"    call {q}()")
            for u in uses:
                if defined[u]:
                    lines.append(f"    call {defined[u][0]}_{u}()")
            lines.append(f"  end subroutine {p}")
        lines.append(f"end module {m}")
        fname = f"f{i}.f90"
        if same_base and i in (1, 2):
            fname = f"{'ab'[i - 1]}/util.f90"          # equal base names in different directories
        files[f"src/{fname}"] = "\n".join(lines) + "\n"
    allp = [p for ps in defined.values() for p in ps]
    shared = shared or len(set(allp)) < len(allp)
    main = ["program main", "  !! the program"] + [f"  use mod{i}, only: p{i} => {defined[i][0]}" for i in range(n)] + \
           ["  implicit none"] + [f"  call p{i}()" for i in range(n)] + ["end program main"]
    files["src/main.f90"] = "\n".join(main) + "\n"
    options = {"project": "P", "src_dir": "./src", "output_dir": "./doc", "preprocess": False, "graph": True, "search": True,
               "display": ["public", "private", "protected"], "proc_internals": True, "graph_dir": "./graphs",
               "print_creation_date": False}
    pages = "static_pages" not in excl and ch.bool(1, 2)
    if pages:
        # static pages; the top page orders only some of its sub-pages explicitly
        options["page_dir"] = "./pages"
        subs = ch.shuffle(["zeta", "beta", "gamma", "delta", "alpha"])[: ch.count(3, 5)]
        files["pages/index.md"] = f"title: Notes\nordered_subpage: {subs[0]}.md\n\nTop page.\n"
        for sname in subs:
            files[f"pages/{sname}.md"] = f"title: {sname.capitalize()}\n\nPage {sname}.\n"
        files["pages/more/index.md"] = "title: More\n\nMore pages.\n"
        files["pages/more/one.md"] = "title: One\n\nPage one.\n"
        files["pages/more/two.md"] = "title: Two\n\nPage two.\n"
    files["project.md"] = site.project_file(options, "Deterministic?\n")
    # an unrelated project whose output may be left behind in the output directory
    other = {"src/zz.f90": "module leftover\n  !! from another project\n  integer :: q\nend module leftover\n",
             "pages/index.md": "title: Old pages\n\nstale\n",
             "project.md": site.project_file(dict(options, page_dir="./pages", externalize=True), "Other.\n")}
    names = sorted(k[len("src/"):] for k in files if k.startswith("src/"))
    perm_seed = ch.int(1000)
    return {"files": files, "other": other, "names": names, "perm_seed": perm_seed,
            "classes": [f"files:{len(names)}"] + (["shared-names"] if shared else []) + (["same-basename"] if same_base else []) + (["static-pages"] if pages else []),
            "nontrivial": len(names) >= 3 and shared}


def strategy(tier, excl):
    excl = tuple(excl)
    n = budget(tier)["runs"]

    def make(ch):
        c = gen_case(ch, excl)
        c["runs"] = n
        return c
    return from_bytes(make, min_size=80, max_size=500)


def tree_digest(root: Path):
    out = {}
    for f in sorted(root.rglob("*")):
        if f.is_file():
            out[f.relative_to(root).as_posix()] = hashlib.sha1(f.read_bytes()).hexdigest()
    return out


def run_ford(root: Path, hashseed, order, parallel):
    env = dict(os.environ, PYTHONHASHSEED=str(hashseed), FORD_DEBUGGING="1", FORD_REPO=fordapi.REPO)
    env["PYTHONPATH"] = fordapi.REPO + os.pathsep + env.get("PYTHONPATH", "")
    if order is not None:
        env["VFW_FILE_ORDER"] = json.dumps(order)
    else:
        env.pop("VFW_FILE_ORDER", None)
    # directory enumeration: ascending for orders that start low, descending otherwise, the file system's own when the
    # source order is native too
    env.pop("VFW_LISTDIR", None)
    if order is not None:
        env["VFW_LISTDIR"] = "asc" if list(order) == sorted(order) else "desc"
    cmd = [sys.executable, str(VERIF / "vfw" / "ford_wrapper.py"), "project.md", "--config", f"parallel = {parallel}"]
    p = subprocess.run(cmd, cwd=root, env=env, capture_output=True, text=True, timeout=600)
    return p.returncode, (p.stdout + p.stderr)[-600:]


def schedules(case):
    """(label, hashseed, order, parallel, history)"""
    names = case["names"]
    perms = list(itertools.permutations(names)) if len(names) <= 4 else None
    ch = Chooser(bytes((case["perm_seed"] * 31 + i * 17) % 256 for i in range(256)))
    out = [("reference", 0, sorted(names), 0, "absent")]
    extra = [
        ("hashseed", 1, sorted(names), 0, "absent"),
        ("reversed-files", 0, list(reversed(sorted(names))), 0, "absent"),
        ("hashseed-native-order", 2, None, 0, "absent"),
        ("parallel2", 0, sorted(names), 2, "absent"),
        ("stale-other-project", 0, sorted(names), 0, "other"),
        ("shuffled-files", 3, ch.shuffle(names), 0, "same"),
        ("parallel8", 4, ch.shuffle(names), 8, "absent"),
        ("hashseed-native-order2", 5, None, 0, "other"),
    ]
    out += extra[: max(1, case.get("runs", 5) - 1)]
    if perms is not None and case.get("runs", 5) >= 9:
        out += [(f"perm{i}", 0, list(p), 0, "absent") for i, p in enumerate(perms)]
    return out


def check(case) -> Result:
    res = Result(nontrivial=case.get("nontrivial", False), classes=list(case.get("classes", [])))
    res.sample = {"files": case["files"]}
    res.evaluations = 0
    ref = None
    with fordapi.Sandbox(case["files"], prefix="vfw-c12-") as root:
        for label, hs, order, par, hist in schedules(case):
            for d in ("doc", "graphs"):
                shutil.rmtree(root / d, ignore_errors=True)
            if hist == "other":
                with fordapi.Sandbox(case["other"], prefix="vfw-c12o-") as oroot:
                    rc, out = run_ford(oroot, 0, None, 0)
                    if (oroot / "doc").exists():
                        shutil.copytree(oroot / "doc", root / "doc")
            elif hist == "same":
                run_ford(root, 0, None, 0)
            rc, out = run_ford(root, hs, order, par)
            res.evaluations += 1
            if rc != 0:
                res.fail("HARNESS:ford-failed" if ref is None else f"run-fails:{label}", f"{label}: exit {rc}: {out}")
                break
            dig = tree_digest(root / "doc")
            dig.update({"graphs/" + k: v for k, v in tree_digest(root / "graphs").items()} if (root / "graphs").exists() else {})
            if ref is None:
                ref = dig
                continue
            if dig != ref:
                diff = sorted(set(k for k in set(dig) | set(ref) if dig.get(k) != ref.get(k)))
                kinds = sorted({(k.split("/")[0] if "/" in k else k) for k in diff})
                factor = label.rstrip("0123456789")
                only = [k for k in diff if k not in ref or k not in dig]
                res.fail(f"output-differs:{factor}", f"{label} (hash seed {hs}, file order {order}, parallel {par}, output dir "
                                                     f"{hist}) changed {len(diff)} files, e.g. {diff[:6]}"
                                                     + (f"; present in only one tree: {only[:4]}" if only else ""))
    return res
