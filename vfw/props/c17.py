"""C17 - static pages mirror the page directory, in the documented order.

Generated: page directories to depth 3 - Markdown files with and without `title`,
directories with and without index.md, non-Markdown files, hidden / backup files,
`ordered_subpage` lists (complete, partial, naming index.md, naming missing entries),
page-level `copy_subdir`, pages that link to each other relatively and through |page|,
|url|, |media| and [[entity]] links into a small source project.
Oracles: the set of page/**/*.html equals the titled Markdown files under indexed
directories (same relative paths); navigation order = ordered_subpage first, the rest
alphabetically; other files and copy_subdir directories are copied next to their page;
every link on every static page resolves (the C09 crawler restricted to page/); a title-less
file is reported by name and its siblings are unaffected.
"""
from __future__ import annotations

import os
import re

from vfw import fordapi, site
from vfw.choose import Chooser, from_bytes
from vfw.runner import Result

ID = "C17"
LEVEL = "exploration"
TECHNIQUE = ("property-based testing: generated page directory trees; reference page set / order / copied files computed "
             "from the tree; link crawler over page/")
RULE = ("case = generated page tree + tiny source project; non-trivial iff depth >= 2 and an ordered_subpage or copy_subdir "
        "directive is present; distinct by SHA-1 of the files")
ASSUMPTIONS = [
    "ordered_subpage / copy_subdir entries are real entry names (file names with .md, directory names), as in example/pages",
    "an ordered_subpage entry naming a missing file may end the run with an error naming the entry (FORD raises on purpose)",
    "copy_subdir directories contain no index.md; file names are lower case (no collation ambiguity)",
]
SRC = "module srcmod\n  !! a module to link to\n  integer :: x\ncontains\n  subroutine srcsub()\n    !! a procedure\n  end subroutine srcsub\nend module srcmod\n"
MD_NAMES = ["alpha.md", "beta.md", "gamma.md", "zeta.md", "notes.md", "v1.2.md", "v1.3.md"]    # (dots in names: release notes)
DIR_NAMES = ["guide", "ref", "extra", "more"]
COPY_NAMES = ["images", "data"]
OTHER = ["diagram.png", "table.csv", "readme.txt"]
PROJECT_COPY = [False]      # whether the project file sets `copy_subdir: shared`


def budget(tier):
    if tier == "quick":
        return {"examples": 480, "shrink_cap_s": 60}
    return {"examples": 6400, "shrink_cap_s": 280, "wall_cap_s": 3300}


def gen_dir(ch, depth, counter, top=False):
    d = {"index": None, "files": {}, "other": [], "hidden": [], "dirs": {}, "copydirs": {}}
    has_index = top or ch.bool(4, 5)
    for name in ch.shuffle(MD_NAMES)[: ch.count(0, 3)]:
        counter[0] += 1
        d["files"][name] = {"title": f"T{counter[0]} {name[:-3]}" if ch.bool(5, 6) else None, "n": counter[0]}
    for name in ch.shuffle(OTHER)[: ch.count(0, 2)]:
        d["other"].append(name)
    if ch.bool(1, 4):
        d["hidden"].append(ch.choice([".hidden.md", "draft.md~", ".DS_Store"]))
    if depth < 3:
        for name in ch.shuffle(DIR_NAMES)[: ch.count(0, 2)]:
            d["dirs"][name] = gen_dir(ch, depth + 1, counter)
    own = ch.bool(1, 3)
    if own:
        for name in ch.shuffle(COPY_NAMES)[: ch.count(1, 2)]:
            d["copydirs"][name] = ["pic.png"] + (["sub/inner.dat"] if ch.bool() else [])
    d["shared"] = ["shared.dat"] if (not own and ch.bool(1, 3)) else None    # a `shared/` directory (project-level copy_subdir)
    if has_index:
        counter[0] += 1
        idx = {"title": f"T{counter[0]} index" if (top or ch.bool(8, 9)) else None, "n": counter[0], "ordered": [],
               "copy_subdir": list(d["copydirs"]), "missing": None}
        if not top and d["shared"] and PROJECT_COPY[0] and not idx["copy_subdir"] and not d["files"] and ch.bool(1, 2):
            # (only where index.md is the directory's only page: other pages of the directory apply the project-wide
            #  setting themselves)
            # an empty `copy_subdir:` switches the project-wide setting off for this directory (user guide, subtutorial_01)
            idx["copy_subdir_off"] = True
        if idx["copy_subdir"] and ch.bool(1, 3):
            # an entry naming a directory that does not exist: reported, the others are still copied
            idx["copy_subdir"].insert(ch.int(len(idx["copy_subdir"]) + 1), "nowhere")
        entries = sorted(list(d["files"]) + list(d["dirs"]))
        if ch.bool(1, 10):
            idx["ordered_empty"] = True
        elif entries and ch.bool(1, 2):
            k = ch.count(1, len(entries))
            idx["ordered"] = ch.shuffle(entries)[:k]
            if ch.bool(1, 6):
                idx["ordered"].insert(ch.int(len(idx["ordered"]) + 1), "index.md")
            if ch.bool(1, 6):
                # the same entry named twice: it is still one page, at its first position
                idx["ordered"].insert(ch.int(len(idx["ordered"]) + 1), ch.choice(idx["ordered"]))
            # a directory may be named with a trailing slash
            idx["slash"] = [x for x in idx["ordered"] if x in d["dirs"] and ch.bool(1, 3)]
            if ch.bool(1, 12):
                idx["missing"] = "ghost.md"
                idx["ordered"].insert(ch.int(len(idx["ordered"]) + 1), "ghost.md")
        d["index"] = idx
    if not (d["index"] or d["files"] or d["other"] or d["copydirs"]) and not any(True for _ in d["dirs"]):
        d["other"].append("readme.txt")      # (every generated directory exists on disk)
    return d


def expected_pages(d, loc=""):
    """-> (ordered list of page paths in navigation order below this index (excluding itself), all page paths,
            copied files, names that must be reported)"""
    nav, pages, copied, reported = [], [], [], []
    if d["index"] is None or d["index"]["title"] is None:
        if d["index"] is not None:
            reported.append(os.path.join(loc, "index.md"))
        return None
    pages.append(os.path.join(loc, "index.html"))
    entries = sorted(list(d["files"]) + list(d["dirs"]) + d["other"] + list(d["copydirs"]) + d["hidden"])
    order = list(dict.fromkeys(x for x in d["index"]["ordered"] if x != "index.md"))
    merged = list(dict.fromkeys(order + entries))
    for name in merged:
        if name.startswith(".") or name.endswith("~"):
            continue
        if name in d["files"]:
            if d["files"][name]["title"] is None:
                reported.append(name)
                continue
            p = os.path.join(loc, name[:-3] + ".html")
            pages.append(p)
            nav.append(p)
        elif name in d["dirs"]:
            sub = expected_pages(d["dirs"][name], os.path.join(loc, name))
            if sub is None:
                if d["dirs"][name]["index"] is not None:
                    reported.append("index.md")
                continue
            snav, spages, scopied, srep = sub
            nav.append(os.path.join(loc, name, "index.html"))
            nav.extend(snav)
            pages.extend(spages)
            copied.extend(scopied)
            reported.extend(srep)
        elif name in d["other"]:
            copied.append(os.path.join(loc, name))
        elif name in d["copydirs"]:
            pass
    for name, files in d["copydirs"].items():
        for f in files:
            copied.append(os.path.join(loc, name, f))
    if d.get("shared") and PROJECT_COPY[0] and not d["index"].get("copy_subdir_off"):
        for f in d["shared"]:
            copied.append(os.path.join(loc, "shared", f))
    return nav, pages, copied, reported


def has_missing(d):
    if d["index"] is not None and d["index"]["title"] is not None and d["index"].get("missing"):
        return True
    if d["index"] is None or d["index"]["title"] is None:
        return False
    return any(has_missing(s) for s in d["dirs"].values())


def render_tree(d, ch, loc, all_pages, depth, files):
    """Write the Markdown files of this directory into `files`."""
    def body(n, here):
        lines = [f"Text zq{n}x0w0."]
        # relative links to other existing pages
        targets = [p for p in all_pages if p != here]
        for p in ch.shuffle(targets)[: ch.count(0, 2)]:
            rel = os.path.relpath(p, os.path.dirname(here) or ".")
            lines.append(f"See [that page]({rel}).")
        if ch.bool(1, 3):
            lines.append("Via alias: [root of pages](|page|/index.html) and [front](|url|/index.html).")
        if ch.bool(1, 4):
            lines.append("![logo](|media|/logo.png)")
        if ch.bool(1, 3):
            lines.append("Code: [[srcmod]] and [[srcmod:srcsub]].")
        return "\n".join(lines) + "\n"

    def meta(title, extra=()):
        out = ["---"] if ch.bool() else []
        if out == [] and title is not None and ch.bool(1, 8):
            out = ["\ufeff"]          # a UTF-8 byte order mark in front of the first metadata line (joined to it below)
        if title is not None:
            out.append(f"title: {title}")
        out.extend(extra)
        if out and out[0] == "---":
            out.append("---")
        if out and out[0] == "\ufeff":
            out = ["\ufeff" + out[1]] + out[2:]
        return "\n".join(out) + ("\n\n" if out else "\n")

    base = os.path.join("pages", loc)
    if d["index"] is not None:
        idx = d["index"]
        extra = [f"ordered_subpage: {x}" + ("/" if x in idx.get("slash", ()) else "") for x in idx["ordered"]] + \
                [f"copy_subdir: {x}" for x in idx["copy_subdir"]]
        if idx.get("ordered_empty"):
            extra.insert(0, "ordered_subpage:")        # the option without a value: no explicit order
        if idx.get("copy_subdir_off"):
            extra.append("copy_subdir:")
        if idx["title"] is None:
            extra = ["author: nobody"] + extra
        files[os.path.join(base, "index.md")] = meta(idx["title"], extra) + body(idx["n"], os.path.join(loc, "index.html"))
    for name, f in d["files"].items():
        extra = ["author: someone"] if f["title"] is None else []
        files[os.path.join(base, name)] = meta(f["title"], extra) + body(f["n"], os.path.join(loc, name[:-3] + ".html"))
    for name in d["other"]:
        files[os.path.join(base, name)] = f"payload of {name}\n"
    for name in d["hidden"]:
        files[os.path.join(base, name)] = "---\ntitle: Hidden\n---\n\nshould not appear zq999x0w0\n"
    for name, sub in d["dirs"].items():
        render_tree(sub, ch, os.path.join(loc, name), all_pages, depth + 1, files)
    for name, fl in d["copydirs"].items():
        for f in fl:
            files[os.path.join(base, name, f)] = f"copied {name}/{f}\n"
    if d.get("shared") and PROJECT_COPY[0]:
        for f in d["shared"]:
            files[os.path.join(base, "shared", f)] = "shared payload\n"


def gen_case(ch: Chooser, excl=()):
    counter = [0]
    PROJECT_COPY[0] = "project_copy_subdir" not in excl and ch.bool(1, 3)
    tree = gen_dir(ch, 1, counter, top=True)
    exp = expected_pages(tree)
    nav, pages, copied, reported = exp
    files = {"src/srcmod.f90": SRC, "media/logo.png": "png\n"}
    render_tree(tree, ch, "", pages, 1, files)
    options = {"project": "P", "src_dir": "./src", "output_dir": "./doc", "page_dir": "./pages", "media_dir": "./media",
               "preprocess": False, "parallel": 0, "search": ch.bool(), "graph": False}
    if PROJECT_COPY[0]:
        options["copy_subdir"] = "shared"
    latin = "encoding" not in excl and ch.bool(1, 5)
    if latin:
        options["encoding"] = "iso-8859-1"
    files["project.md"] = site.project_file(options, "Front page with [pages](|page|/index.html).\n")
    depth = max((p.count("/") for p in pages), default=0) + 1
    directive = any("ordered_subpage:" in v or "copy_subdir:" in v for k, v in files.items() if k.endswith(".md"))
    if latin:
        # the project's encoding holds for every page, at every depth
        import base64
        for k in [k for k in files if k.startswith("pages/") and k.endswith(".md")]:
            files[k] = {"b64": base64.b64encode((files[k].replace("\ufeff", "") + "\ncaf\xe9 na\xefve\n").encode("latin-1")).decode()}
    return {"files": files, "options": options, "nav": nav, "pages": sorted(pages), "copied": sorted(copied),
            "reported": reported, "may_fail_on": "ghost.md" if has_missing(tree) else None,
            "classes": [f"depth:{depth}"] + (["directive"] if directive else []) + (["titleless"] if reported else []) +
                       (["missing-entry"] if has_missing(tree) else []) + (["project-copy_subdir"] if PROJECT_COPY[0] else []) +
                       (["latin-1"] if latin else []),
            "nontrivial": depth >= 2 and directive}


def strategy(tier, excl):
    excl = tuple(excl)
    return from_bytes(lambda ch: gen_case(ch, excl), min_size=120, max_size=900)


def check(case) -> Result:
    res = Result(nontrivial=case.get("nontrivial", False), classes=list(case.get("classes", [])))
    res.sample = {"pages": case["pages"], "nav": case["nav"],
                  "tree": sorted(k for k in case["files"] if k.startswith("pages/"))}
    try:
        with fordapi.Sandbox(case["files"], prefix="vfw-c17-") as root:
            try:
                data, out = site.build_site(root)
            except ValueError as e:
                if case.get("may_fail_on") and case["may_fail_on"] in str(e):
                    res.classes.append("explicit-error-for-missing-entry")
                    return res
                raise
            idx = site.SiteIndex(root / "doc")
            got_pages = sorted(p[len("page/"):] for p in idx.pages if p.startswith("page/"))
            want_pages = case["pages"]
            for p in sorted(set(want_pages) - set(got_pages)):
                res.fail("page-missing", f"page/{p} was not generated (titled Markdown file under indexed directories)")
            for p in sorted(set(got_pages) - set(want_pages)):
                res.fail("page-unexpected", f"page/{p} was generated but has no titled source / is below a directory without index.md")
            for f in case["copied"]:
                if "page/" + f not in idx.files:
                    kind = "copy_subdir" if f.split("/")[-2:-1] and any(c in f.split("/") for c in COPY_NAMES) else "file"
                    res.fail(f"not-copied:{kind}", f"page/{f} is missing from the output")
            extra = [f for f in idx.files if f.startswith("page/") and not f.endswith(".html") and f[len("page/"):] not in case["copied"]]
            for f in extra:
                res.fail("copied-unexpected", f"{f} was copied but is hidden / a backup file / not part of the tree")
            # navigation order, as shown on the top page
            top = idx.pages.get("page/index.html")
            if top is not None and case["nav"]:
                m = re.search(r'<nav class="nav nav-pills flex-column">(.*?)</div>', top.raw, re.S)
                hrefs = re.findall(r'<a class="nav-link[^"]*" href="([^"]*)"', m.group(1)) if m else []
                got_nav = [os.path.normpath(os.path.join("", h)).replace("\\", "/") for h in hrefs]
                if got_nav != case["nav"]:
                    res.fail("navigation-order", f"navigation lists {got_nav}, expected {case['nav']}")
            # links on static pages
            seen = set()
            for kind, page, url, detail in idx.check_links():
                if not page.startswith("page/"):
                    continue
                sig = f"link:{kind}:depth{page.count('/') - 1}"
                if sig not in seen:
                    seen.add(sig)
                    res.fail(sig, f"on {page}: {url} -> {detail}")
            for name in case["reported"]:
                if os.path.basename(name) not in out:
                    res.fail("titleless-not-reported", f"{name} has no title but no diagnostic names it")
            if "zq999x0w0" in " ".join(p.text for p in idx.pages.values()):
                res.fail("hidden-file-rendered", "a hidden / backup file was turned into a page")
    except SystemExit as e:
        res.fail("HARNESS:ford-exited", str(e))
    except Exception as e:
        res.fail("build:" + fordapi.exception_signature(e), f"{type(e).__name__}: {str(e)[:300]}")
    return res
