"""Model -> Fortran text.  All spelling/layout choices come from a Chooser (vfw.choose), so
rendering is a pure function of (model, bytes).  Chooser(b"") gives the plainest spelling.

render_project(project, ch, form=None) -> ({path: text}, used)   used = {dimension: choice} log
"""
from __future__ import annotations

import os

from vfw.choose import Chooser

DOCMARKS = {"docmark": "!", "predocmark": ">", "docmark_alt": "*", "predocmark_alt": "|"}


class Line:
    __slots__ = ("text", "pre", "post", "docsty", "label", "nobreak", "tag")

    def __init__(self, text, doc=None, docsty="post", label=None, nobreak=False):
        self.text = text
        self.tag = None
        self.pre = []
        self.post = []
        self.docsty = docsty
        self.label = label
        self.nobreak = nobreak
        if doc:
            if docsty in ("pre", "pre_alt"):
                self.pre = list(doc)
            else:
                self.post = list(doc)


class Renderer:
    def __init__(self, ch: Chooser | None = None, marks=None, features=None):
        self.ch = ch or Chooser(b"")
        self.used = {}
        self.marks = dict(DOCMARKS, **(marks or {}))
        self.feat = features or {}
        c = self.ch
        self.kwcase = self.pick("kwcase", ["lower", "upper", "cap", "mixed"])
        self.idcase = self.pick("idcase", ["asis", "upper", "mixed"])
        self.lines = []

    # -- choice bookkeeping
    def pick(self, dim, options, weights=None):
        if weights:
            v = self.ch.weighted(list(zip(weights, options)))
        else:
            v = self.ch.choice(options)
        self.used.setdefault(dim, set()).add(str(v))
        return v

    def flag(self, dim, num=1, den=2):
        v = self.ch.bool(num, den)
        self.used.setdefault(dim, set()).add(str(v))
        return v

    # -- lexical spelling
    def kw(self, word):
        m = self.kwcase
        if m == "lower":
            return word
        if m == "upper":
            return word.upper()
        if m == "cap":
            return " ".join(w.capitalize() for w in word.split(" "))
        return "".join(c.upper() if self.ch.bool() else c for c in word)

    def idn(self, name):
        m = self.idcase
        if m == "asis" or name is None:
            return name
        if m == "upper":
            return name.upper()
        return "".join(c.upper() if self.ch.bool() else c for c in name)

    def expr(self, e):
        """Expressions are model text; only blanks around operators vary."""
        return e

    # -- type spec
    def typespec(self, ts, allow_star=True):
        base = ts["base"]
        if base == "character":
            ln, kd = ts.get("len"), ts.get("kind")
            if ln is None and kd is None:
                return self.kw("character")
            if kd is None:
                opts = ["len=", "paren"] + (["star"] if allow_star else [])
                sty = self.pick("char", opts)
                if sty == "len=":
                    return f"{self.kw('character')}({self.kw('len')}={ln})"
                if sty == "paren":
                    return f"{self.kw('character')}({ln})"
                if ln.isdigit():
                    return f"{self.kw('character')}*{ln}"
                return f"{self.kw('character')}*({ln})"
            if ln is None:
                return f"{self.kw('character')}({self.kw('kind')}={kd})"
            sty = self.pick("charkind", ["len,kind", "kind,len", "positional"])
            if sty == "len,kind":
                return f"{self.kw('character')}({self.kw('len')}={ln}, {self.kw('kind')}={kd})"
            if sty == "kind,len":
                return f"{self.kw('character')}({self.kw('kind')}={kd}, {self.kw('len')}={ln})"
            return f"{self.kw('character')}({ln}, {kd})"
        if base in ("type", "class"):
            return f"{self.kw(base)}({self.idn(ts['proto']) if ts['proto'] != '*' else '*'})"
        if base == "procedure":
            return f"{self.kw('procedure')}({self.idn(ts.get('proto')) or ''})"
        word = self.kw(base)
        kd = ts.get("kind")
        if kd is None:
            return word
        opts = ["paren", "kindeq"]
        if allow_star and kd.isdigit() and base in ("integer", "real", "logical"):
            opts.append("star")
        sty = self.pick("kind", opts)
        if sty == "paren":
            return f"{word}({kd})"
        if sty == "kindeq":
            sp = " " if self.flag("kind-blank", 1, 4) else ""
            return f"{word}({self.kw('kind')}{sp}={sp}{kd})"
        return f"{word}*{kd}"

    # -- declarations
    def var_decl(self, d, allow_stmt=True, doc_ok=True):
        """-> (before_lines, decl_lines, after_lines)"""
        before, main, after = [], [], []
        attrs = []
        stmt_attrs = []       # (attr text, placement)
        names = [e["name"] for e in d["ents"]]

        def place(attr, can_before=True):
            if not allow_stmt or d.get("no_stmt"):
                return "decl"
            opts, w = ["decl", "after"], [3, 1]
            if can_before:
                opts.append("before")
                w.append(1)
            return self.pick("attr-place", opts, w)

        for a in d.get("attrs", []):
            al = a.lower()
            stmt_ok = al in ("allocatable", "pointer", "target", "save", "volatile", "asynchronous",
                             "value", "protected", "contiguous")
            if al == "pointer" and any(e.get("points") for e in d["ents"]):
                stmt_ok = False     # `=> null()` needs the pointer attribute on the declaration
            pl = place(al, can_before=al in ("save", "target", "volatile")) if stmt_ok else "decl"
            if pl == "decl":
                attrs.append(self.kw(a) if "(" not in a else a)
            else:
                stmt_attrs.append((self.kw(al), pl, None))
        if d.get("intent"):
            spelled = {"in": "in", "out": "out", "inout": self.pick("inout", ["inout", "in out"])}[d["intent"]]
            txt = f"{self.kw('intent')}({self.kw(spelled)})"
            pl = place("intent", can_before=False)
            (attrs.append(txt) if pl == "decl" else stmt_attrs.append((txt, pl, None)))
        if d.get("optional"):
            pl = place("optional", can_before=False)
            (attrs.append(self.kw("optional")) if pl == "decl" else stmt_attrs.append((self.kw("optional"), pl, None)))
        access = d.get("access")
        if access:
            pl = d.get("access_place") or place("access")
            (attrs.append(self.kw(access)) if pl == "decl" else stmt_attrs.append((self.kw(access), pl, None)))
        param_stmt = False
        if d.get("parameter"):
            pl = place("parameter", can_before=False) if all(e.get("init") is not None for e in d["ents"]) else "decl"
            if pl == "decl":
                attrs.append(self.kw("parameter"))
            else:
                param_stmt = True
        dimattr = None if d.get("dim_elsewhere") else d.get("dimattr")      # (bounds given by the COMMON statement)
        dim_on_entity = False
        dim_stmt = None
        if dimattr:
            stmt_ok = allow_stmt and not d.get("no_stmt") and all(e.get("init") is None for e in d["ents"])
            sty = self.pick("dim", ["attr", "entity"] + (["stmt"] if stmt_ok else []), [2, 2, 1][: 3 if stmt_ok else 2])
            if sty == "attr":
                attrs.append(f"{self.kw('dimension')}{dimattr}")
            elif sty == "entity":
                dim_on_entity = True
            else:
                dim_stmt = self.pick("dim-stmt-place", ["after", "before"])
        ent_len = None
        tsd = d["ts"]
        if tsd["base"] == "character" and tsd.get("len") and tsd.get("kind") is None and self.feat.get("char_entity_len", True) \
                and self.flag("char-entity-len", 1, 6):
            # FORTRAN 77 spelling: the length follows the entity, `character name*10` / `character name(3)*(*)`
            ent_len = "*" + (tsd["len"] if tsd["len"].isdigit() else f"({tsd['len']})")
            ts = self.kw("character")
        else:
            ts = self.typespec(d["ts"])
        ents_txt = []
        for e in d["ents"]:
            t = self.idn(e["name"])
            if e.get("dim"):
                t += e["dim"]
            elif dim_on_entity:
                t += dimattr
            if ent_len:
                t += ent_len
            if e.get("init") is not None and not param_stmt:
                op = "=>" if e.get("points") else "="
                sp = " " if self.flag("init-blank", 3, 4) else ""
                t += f"{sp}{op}{sp}{e['init']}"
            ents_txt.append((t, e))
        need_dc = bool(attrs) or any(e.get("init") is not None and not param_stmt for e in d["ents"])
        dc = need_dc or self.flag("dcolon", 3, 4)
        head = ts + "".join(", " + a for a in attrs)
        # one comment on a declaration that names several entities documents all of them, so
        # documented multi-entity declarations are never split into one statement per entity
        documented = doc_ok and any(e.get("doc") for e in d["ents"])
        split = len(ents_txt) > 1 and not documented and self.flag("split-entities", 1, 4)
        groups = [[x] for x in ents_txt] if split else [ents_txt]
        for g in groups:
            txt = head + (" :: " if dc else " ") + ", ".join(t for t, _ in g)
            doc = next((e.get("doc") for _, e in g if e.get("doc")), None) if doc_ok else None
            main.append(Line(txt, doc, self.docsty(doc)))
        # attribute statements; an ALLOCATABLE / POINTER / TARGET statement may give the array bounds as well
        carrier = None
        if dim_stmt and self.feat.get("dim_on_attr_stmt", True):
            cands = [i for i, (txt, _, _) in enumerate(stmt_attrs) if txt.lower() in ("allocatable", "pointer", "target")]
            if cands and self.flag("dim-on-attr-stmt", 1, 2):
                carrier = cands[0]
        blank = " " if dim_stmt and self.flag("dim-blank", 1, 4) else ""       # `dimension a (10)`
        for i, (txt, pl, _) in enumerate(stmt_attrs):
            dcs = " :: " if self.flag("attrstmt-dcolon") else " "
            ln = Line(txt + dcs + ", ".join(self.idn(n) + (blank + dimattr if i == carrier else "") for n in names))
            (before if pl == "before" else after).append(ln)
        if dim_stmt and carrier is None:
            dcs = " :: " if self.flag("attrstmt-dcolon") else " "
            ln = Line(self.kw("dimension") + dcs + ", ".join(self.idn(n) + blank + dimattr for n in names))
            (before if dim_stmt == "before" else after).append(ln)
        if param_stmt:
            items = ", ".join(f"{self.idn(e['name'])} = {e['init']}" for e in d["ents"])
            after.append(Line(f"{self.kw('parameter')} ({items})"))
        # attributes that only some of the entities of the statement have: always by a statement naming just them
        for e in d["ents"]:
            for a in e.get("extra_attrs", []):
                dcs = " :: " if self.flag("attrstmt-dcolon") else " "
                after.append(Line(self.kw(a) + dcs + self.idn(e["name"])))
        return before, main, after

    def docsty(self, doc):
        if not doc:
            return "post"
        allowed = self.feat.get("docstyles", ["post", "pre", "post_alt", "pre_alt"])
        return self.pick("docstyle", allowed)

    # -- end statements
    def end(self, kwname, name):
        opts = ["full", "kw", "joined"]
        if kwname in ("module", "submodule", "program", "subroutine", "function", "block data") and \
                self.feat.get("bare_end", True):
            opts.append("bare")
        sty = self.pick("end", opts)
        if sty == "bare":
            return self.kw("end")
        if sty == "kw" or not name:
            return f"{self.kw('end')} {self.kw(kwname)}"
        if sty == "joined" and " " not in kwname:
            return f"{self.kw('end' + kwname)} {self.idn(name)}"
        return f"{self.kw('end')} {self.kw(kwname)} {self.idn(name)}"

    # -- use statements
    def use(self, u):
        t = self.kw("use")
        if u.get("nature"):
            t += f", {self.kw(u['nature'])} ::"
        elif self.flag("use-dcolon", 1, 5):
            t += " ::"
        t += " " + self.idn(u["module"])
        parts = []
        for loc, rem in u.get("renames", []):
            parts.append(f"{self.idn(loc)} => {self.idn(rem)}")
        if u.get("only") is not None:
            items = []
            for loc, rem in u["only"]:
                items.append(f"{self.idn(loc)} => {self.idn(rem)}" if rem and rem != loc else self.idn(loc))
            sp = "" if self.flag("only-tight", 1, 4) else " "
            t += f", {self.kw('only')}{sp}:{sp}" + ", ".join(items)
        elif parts:
            t += ", " + ", ".join(parts)
        return Line(t)

    # -- scopes
    def access_stmts(self, u, when):
        """Access statements for entities whose access is given by statement (types, procs, interfaces)."""
        out = []
        for name, acc, how in u.get("_access_stmts", []):
            if how == when:
                dcs = " :: " if self.flag("attrstmt-dcolon") else " "
                out.append(Line(self.kw(acc) + dcs + name))
        return out

    def spec_part(self, u, allow_stmt=True, is_module=False, is_type=False):
        L = []
        for x in u.get("uses", []):
            L.append(self.use(x))
        if u.get("implicit_none", True) and not is_type:
            L.append(Line(self.kw("implicit none")))
        default = u.get("default_access")
        late = default and u.get("access_pos") == "late"
        if default and not late:
            L.append(Line(self.kw(default)))
        befores, mains, afters = [], [], []
        early_access, late_access = [], []
        for key, word in (("public_names", "public"), ("private_names", "private")):
            if u.get(key):
                names = list(u[key])
                chunks = [names] if not self.flag("access-list-split", 1, 3) else [[n] for n in names]
                for chunk in chunks:
                    dcs = " :: " if self.flag("attrstmt-dcolon") else " "
                    ln = Line(self.kw(word) + dcs + ", ".join(self.gspec(n) for n in chunk))
                    (early_access if self.flag("access-list-early") else late_access).append(ln)
        for d in u.get("decls", []):
            kind = d["d"]
            if kind == "var":
                b, m, a = self.var_decl(d, allow_stmt=allow_stmt)
                if is_module:
                    for ln in m:
                        ln.tag = "module-decl"      # may be moved into an include file (feature include_split)
                befores += b
                mains += m
                afters += a
            elif kind == "type":
                mains += self.type_def(d, early_access, late_access)
            elif kind == "interface":
                mains += self.interface(d, early_access, late_access)
            elif kind == "enum":
                mains.append(Line(f"{self.kw('enum')}, {self.kw('bind')}(c)"))
                for n, v in d["items"]:
                    dc = " :: " if v is not None or self.flag("dcolon", 3, 4) else " "
                    mains.append(Line(f"{self.kw('enumerator')}{dc}{self.idn(n)}" + (f" = {v}" if v is not None else ""),
                                      d.get("docs", {}).get(n), "post"))
                mains.append(Line(f"{self.kw('end')} {self.kw('enum')}"))
            elif kind == "common":
                txt = self.kw("common")
                for i, (name, vars_) in enumerate(d["blocks"]):
                    if name:
                        txt += f" /{self.idn(name)}/ "
                    elif i or self.flag("blank-common-slashes", 1, 3):
                        txt += " // "
                    else:
                        txt += " "
                    txt += ", ".join(self.idn(v) + d.get("dims", {}).get(v, "") for v in vars_)
                afters.append(Line(txt, d.get("doc"), self.docsty(d.get("doc"))))
            elif kind == "stmt":
                # a specification statement given as keyword + rest (e.g. OPTIONAL for a dummy procedure)
                afters.append(Line(self.kw(d["kw"]) + d["rest"]))
            elif kind == "namelist":
                afters.append(Line(f"{self.kw('namelist')} /{self.idn(d['name'])}/ " + ", ".join(self.idn(v) for v in d["vars"]),
                                   d.get("doc"), self.docsty(d.get("doc"))))
        # access statements for procedures of this scope
        for p in u.get("procs", []):
            self._access_of(p, p["name"], early_access, late_access)
        L += early_access + befores + mains + afters + late_access
        if late:
            L.append(Line(self.kw(default)))
        return L

    def gspec(self, name):
        """Generic spec: identifier, or operator(...)/assignment(=) whose blanks are insignificant."""
        if "(" not in name:
            return self.idn(name)
        word, rest = name.split("(", 1)
        inner = rest.rsplit(")", 1)[0]
        sty = self.pick("gspec-blanks", ["tight", "kw-blank", "inner-blanks"], [3, 1, 1])
        if sty == "tight":
            return f"{self.kw(word)}({inner})"
        if sty == "kw-blank":
            return f"{self.kw(word)} ({inner})"
        return f"{self.kw(word)}( {inner} )"

    def _access_of(self, node, name, early, late):
        acc = node.get("access")
        if not acc or node.get("access_how", "stmt_after") == "attr":
            return
        dcs = " :: " if self.flag("attrstmt-dcolon") else " "
        ln = Line(self.kw(acc) + dcs + self.gspec(name))
        (early if node.get("access_how") == "stmt_before" else late).append(ln)

    def type_def(self, t, early, late):
        L = []
        head = self.kw("type")
        attrs = []
        if t.get("abstract"):
            attrs.append(self.kw("abstract"))
        if t.get("extends"):
            attrs.append(f"{self.kw('extends')}({self.idn(t['extends'])})")
        if t.get("bind_c"):
            attrs.append(f"{self.kw('bind')}(c)")
        if t.get("access") and t.get("access_how", "attr") == "attr":
            attrs.append(self.kw(t["access"]))
        else:
            self._access_of(t, t["name"], early, late)
        if attrs:
            head += ", " + ", ".join(attrs) + " :: "
        else:
            head += " :: " if self.flag("dcolon", 1, 2) else " "
        head += self.idn(t["name"])
        L.append(Line(head, t.get("doc"), self.docsty(t.get("doc"))))
        if t.get("sequence"):
            L.append(Line(self.kw("sequence")))
        if t.get("private_comps"):
            L.append(Line(self.kw("private")))
        for d in t.get("comps", []):
            b, m, a = self.var_decl(d, allow_stmt=False)
            L += m
        if t.get("binds") or t.get("finals") or t.get("private_binds"):
            L.append(Line(self.kw("contains")))
            if t.get("private_binds"):
                L.append(Line(self.kw("private")))
            binds = list(t.get("binds", []))
            i = 0
            while i < len(binds):
                b = binds[i]
                group = [b]
                # several specific bindings with the same attributes may share one statement
                while (i + len(group) < len(binds) and not b.get("generic") and not b.get("doc")
                       and self._mergeable(b, binds[i + len(group)])
                       and (t.get("force_merge") or self.flag("bind-merge", 1, 2))):
                    group.append(binds[i + len(group)])
                L.append(self.binding(b, group[1:]))
                i += len(group)
            if t.get("finals"):
                fdc = " :: " if self.flag("final-dcolon", 3, 4) else " "        # the `::` is optional
                L.append(Line(f"{self.kw('final')}{fdc}" + ", ".join(self.idn(f) for f in t["finals"]),
                              t.get("final_doc"), "post"))
        L.append(Line(self.end("type", t["name"]) if True else ""))
        return L

    @staticmethod
    def _mergeable(a, b):
        keys = ("iface", "deferred", "attrs", "access")
        return (not b.get("generic") and not b.get("doc")
                and all((a.get(k) or None) == (b.get(k) or None) for k in keys))

    def binding(self, b, more=()):
        if b.get("generic"):
            txt = self.kw("generic")
            if b.get("access"):
                txt += ", " + self.kw(b["access"])
            txt += f" :: {self.gspec(b['name'])} => " + ", ".join(self.idn(x) for x in b["targets"])
            return Line(txt, b.get("doc"), self.docsty(b.get("doc")))
        txt = self.kw("procedure")
        if b.get("iface"):
            txt += f"({self.idn(b['iface'])})"
        attrs = []
        if b.get("deferred"):
            attrs.append(self.kw("deferred"))
        for a in b.get("attrs", []):
            attrs.append(self.kw(a) if "(" not in a else a)
        if b.get("access"):
            attrs.append(self.kw(b["access"]))
        if attrs:
            txt += ", " + ", ".join(attrs) + " :: "
        else:
            txt += " :: " if b.get("target") or more or self.flag("dcolon", 3, 4) else " "
        txt += self.idn(b["name"])
        if b.get("target"):
            txt += " => " + self.idn(b["target"])
        for o in more:
            txt += ", " + self.idn(o["name"]) + (" => " + self.idn(o["target"]) if o.get("target") else "")
        return Line(txt, b.get("doc"), self.docsty(b.get("doc")))

    def interface(self, i, early, late):
        L = []
        form = i["form"]
        if form == "generic":
            head = f"{self.kw('interface')} {self.gspec(i['name'])}"
            self._access_of(i, i["name"], early, late)
        elif form == "abstract":
            head = f"{self.kw('abstract')} {self.kw('interface')}"
        else:
            head = self.kw("interface")
        L.append(Line(head, i.get("doc"), self.docsty(i.get("doc"))))
        for b in i.get("bodies", []):
            L += self.procedure(b, in_interface=True)
            if form != "generic" or b.get("access"):
                self._access_of(b, b["name"], early, late)
        if i.get("modprocs"):
            mp = self.kw("module procedure") if self.flag("modproc-module", 3, 4) or form != "generic" else self.kw("procedure")
            if self.flag("modproc-split", 1, 3) and len(i["modprocs"]) > 1:
                for n in i["modprocs"]:
                    L.append(Line(f"{mp} {self.idn(n)}", i.get("modproc_docs", {}).get(n), "post"))
            else:
                dcs = " :: " if self.flag("attrstmt-dcolon", 1, 4) else " "
                L.append(Line(f"{mp}{dcs}" + ", ".join(self.idn(n) for n in i["modprocs"])))
        e = f"{self.kw('end')} {self.kw('interface')}"
        if form == "generic" and self.flag("end-interface-name", 1, 2):
            e += " " + self.gspec(i["name"])
        L.append(Line(e))
        return L

    def procedure(self, p, in_interface=False):
        L = []
        k = p["k"]
        if k == "modproc":
            L.append(Line(f"{self.kw('module procedure')} {self.idn(p['name'])}", p.get("doc"), self.docsty(p.get("doc"))))
            L += self.spec_part(p)
            L += self.exec_part(p)
            L += self.contains(p)
            L.append(Line(self.end("procedure", p["name"])))
            return L
        prefix = [self.kw(x) for x in p.get("prefix", [])]
        retstyle = None
        if k == "function" and p.get("rettype") and not p.get("ret_in_decls"):
            prefix.append(self.typespec(p["rettype"], allow_star=False))
        if self.ch.bool(1, 4):
            prefix.reverse()
        head = " ".join(prefix + [self.kw(k), self.idn(p["name"])])
        args = p.get("args", [])
        if args or k == "function" or p.get("bind") or self.flag("empty-parens", 1, 2):
            head += "(" + ", ".join(self.idn(a) for a in args) + ")"
        suffix = []
        if k == "function" and p.get("result"):
            suffix.append(f"{self.kw('result')}({self.idn(p['result'])})")
        if p.get("bind"):
            b = f"{self.kw('bind')}(c"
            if p["bind"].get("name") is not None:
                b += f", {self.kw('name')}={p['bind']['name']}"
            suffix.append(b + ")")
        if len(suffix) == 2 and self.ch.bool():
            suffix.reverse()
        head += "".join(" " + s for s in suffix)
        L.append(Line(head, p.get("doc"), self.docsty(p.get("doc"))))
        if in_interface and p.get("import"):
            L.append(Line(f"{self.kw('import')} :: " + ", ".join(self.idn(x) for x in p["import"])))
        L += self.spec_part(p, allow_stmt=not in_interface)
        if not in_interface:
            L += self.exec_part(p)
            L += self.contains(p)
        L.append(Line(self.end(k, p["name"])))
        return L

    def contains(self, u):
        L = []
        if u.get("procs"):
            L.append(Line(self.kw("contains")))
            for p in u["procs"]:
                L += self.procedure(p)
        return L

    def exec_part(self, u):
        L = []
        for s in u.get("exec", []):
            if isinstance(s, dict):
                L.append(Line(s["text"], label=s.get("label"), nobreak=s.get("nobreak", False)))
            else:
                L.append(Line(s))
        return L

    def unit(self, u):
        k = u["k"]
        L = []
        if k in ("subroutine", "function"):
            return self.procedure(u)
        if k == "module":
            L.append(Line(f"{self.kw('module')} {self.idn(u['name'])}", u.get("doc"), self.docsty(u.get("doc"))))
            L += self.spec_part(u, is_module=True)
            L += self.contains(u)
            L.append(Line(self.end("module", u["name"])))
        elif k == "submodule":
            par = f"{self.idn(u['ancestor'])}" + (f":{self.idn(u['parent'])}" if u.get("parent") else "")
            L.append(Line(f"{self.kw('submodule')} ({par}) {self.idn(u['name'])}", u.get("doc"), self.docsty(u.get("doc"))))
            L += self.spec_part(u, is_module=True)
            L += self.contains(u)
            L.append(Line(self.end("submodule", u["name"])))
        elif k == "program":
            L.append(Line(f"{self.kw('program')} {self.idn(u['name'])}", u.get("doc"), self.docsty(u.get("doc"))))
            L += self.spec_part(u)
            L += self.exec_part(u)
            L += self.contains(u)
            L.append(Line(self.end("program", u["name"])))
        elif k == "blockdata":
            L.append(Line(f"{self.kw('block data')}" + (f" {self.idn(u['name'])}" if u.get("name") else ""),
                          u.get("doc"), self.docsty(u.get("doc"))))
            L += self.spec_part(u)
            L.append(Line(self.end("block data", u.get("name"))))
        return L

    # -- physical layout, free form
    def layout_free(self, lines, file_doc=None):
        ch = self.ch
        out = []
        m = self.marks
        if file_doc:
            for d in file_doc:
                out.append("!" + m["docmark"] + d)
            out.append("")
        indent_on = self.flag("indent", 3, 4)
        prev_alt = False
        for ln in lines:
            txt = ln.text
            ind = " " * ch.int(7) if indent_on else ""
            if self.feat.get("comments", True) and ch.bool(1, 8):
                if prev_alt:
                    out.append("")      # a plain comment directly after a `!*` block would belong to it
                out.append(ind + "! " + ch.choice(["zc0x0w0 plain comment", "it's zc0x0w1", 'say "hi" zc0x0w2', "x = f(1) ! not code zc0x0w3", "end module"]))
            if self.feat.get("blank_lines", True) and ch.bool(1, 8):
                out.append("")
            # preceding docs
            if ln.pre:
                if ln.docsty == "pre_alt":
                    out.append(ind + "!" + m["predocmark_alt"] + ln.pre[0])
                    for d in ln.pre[1:]:
                        out.append(ind + "!" + d)
                else:
                    for d in ln.pre:
                        out.append(ind + "!" + m["predocmark"] + d)
            body = self.break_free(txt, ind, ln.nobreak)
            if ln.label:
                body[0] = f"{ln.label} " + body[0].lstrip()
            inline = None
            if ln.post and ln.docsty == "post" and len(ln.post) >= 1 and self.feat.get("inline_docs", True) \
                    and ch.bool(1, 3) and not ln.post[0].startswith(" "*4):
                inline = ln.post[0]
                body[-1] += " !" + m["docmark"] + inline
            out += body
            if ln.post:
                rest = ln.post[1:] if inline is not None else ln.post
                if ln.docsty == "post_alt" and rest:
                    out.append(ind + "  !" + m["docmark_alt"] + rest[0])
                    for d in rest[1:]:
                        out.append(ind + "  !" + d)
                else:
                    for d in rest:
                        out.append(ind + "  !" + m["docmark"] + d)
            prev_alt = bool(ln.post) and ln.docsty == "post_alt"
        return "\n".join(out) + "\n"

    def _in_iface(self, lines, ln):
        return False

    def break_free(self, txt, ind, nobreak=False):
        """Optionally split a statement over continuation lines at safe points (after a comma or
        around operators, never inside a literal)."""
        if len(ind + txt) > 120 and not nobreak:
            # too long for one free-form line (132 columns): break it, repeatedly if need be
            out, rest, first = [], txt, True
            while len(rest) > 100:
                pts = [p for p in safe_break_points(rest) if 30 <= p <= 100]
                if not pts:
                    break
                k = pts[-1]
                out.append((ind if first else ind + "    ") + rest[:k].rstrip() + " &")
                rest, first = rest[k:].lstrip(), False
            out.append((ind if first else ind + "    ") + rest)
            self.used.setdefault("continuation", set()).add("forced")
            return out
        if nobreak or not self.feat.get("continuations", True) or not self.ch.bool(1, 5):
            return [ind + txt]
        if self.feat.get("literal_split") and self.ch.bool(1, 2):
            # continue the statement inside a character literal: `'abc&` / `&def'`; the closing line may end in a comment
            inside = []
            q, start = None, 0
            for i, c in enumerate(txt):
                if q is None and c in "'\"":
                    q, start = c, i
                elif q is not None and c == q:
                    inside += [k for k in range(start + 2, i - 1) if txt[k - 1] != q and txt[k] != q]
                    q = None
            if inside:
                k = self.ch.choice(inside)
                second = ind + "  &" + txt[k:]
                if self.ch.bool(1, 2):
                    second += " ! formerly: call zz_old_name(1)"
                self.used.setdefault("continuation", set()).add("inside-literal")
                return [ind + txt[:k] + "&", second]
        points = safe_break_points(txt)
        if not points:
            return [ind + txt]
        k = self.ch.choice(points)
        lead = self.flag("cont-lead-amp", 1, 3)
        first = ind + txt[:k].rstrip() + " &"
        if self.ch.bool(1, 4):
            first += " ! trailing comment zc0x2w0"
        second = ind + "    " + ("& " if lead else "") + txt[k:].lstrip()
        mid = []
        if self.ch.bool(1, 6):
            mid.append("")
        if self.ch.bool(1, 6):
            mid.append(ind + "! comment between continuation lines zc0x3w0")
        self.used.setdefault("continuation", set()).add("lead&" if lead else "plain")
        return [first] + mid + [second]

    # -- physical layout, fixed form
    def layout_fixed(self, lines, file_doc=None, length_limit=True):
        """Fixed source form: label in columns 1-5, continuation mark in column 6, statement in 7-72,
        comment lines with C, c, * or ! in column 1, optional sequence field from column 73."""
        ch = self.ch
        out = []
        m = self.marks
        self.fixed_ok = True
        cchar = lambda: ch.choice(["C", "c", "*", "!"])
        if file_doc:
            for d in file_doc:
                out.append("!" + m["docmark"] + d)
            out.append("")
        NOLABEL = ("end", "contains", "else", "case", "type", "module", "submodule", "program", "subroutine", "function",
                   "interface", "abstract", "block", "use", "implicit", "private", "public", "sequence", "enum", "import",
                   "procedure", "generic", "final", "integer", "real", "double", "complex", "logical", "character", "class",
                   "common", "namelist", "dimension", "parameter", "save", "intent", "optional", "allocatable", "pointer",
                   "target", "volatile", "value", "protected", "asynchronous", "pure", "elemental", "recursive", "impure",
                   "enumerator", "associate", "select", "where", "elsewhere", "do", "if", "forall")
        prev_alt = False
        for ln in lines:
            if self.feat.get("comments", True) and ch.bool(1, 8):
                if prev_alt:
                    out.append("")
                out.append(cchar() + " " + ch.choice(["zc0x1w0 plain comment", "it's zc0x1w1", "x = f(1) zc0x1w2", "end module"]))
            if ch.bool(1, 10):
                out.append(ch.choice(["", "   ", "      "]))
            if ln.pre:
                if ln.docsty == "pre_alt":
                    out.append("!" + m["predocmark_alt"] + ln.pre[0])
                    for d in ln.pre[1:]:
                        out.append("!" + d)
                else:
                    for d in ln.pre:
                        out.append("!" + m["predocmark"] + d)
            label = (ln.label or "")
            if not label and self.feat.get("fixed_labels", True) and ch.bool(1, 10) and \
                    not ln.text.lower().startswith(NOLABEL) and "=" in ln.text and "::" not in ln.text:
                label = str(ch.choice([10, 20, 100, 9999]))
                self.used.setdefault("fixed-label", set()).add("yes")
            width = 66 if length_limit else ch.choice([66, 90, 110, 110])
            pieces = self.break_fixed(ln.text, width) if not ln.nobreak else [ln.text]
            rows = []
            between = {}          # row index -> comment / blank lines in front of that continuation line
            for i, pc in enumerate(pieces):
                if i == 0:
                    rows.append(f"{label:>5} " + pc if label and ch.bool() else f"{label:<5} " + pc)
                else:
                    cc = ch.choice(list("&+$1*x.!>#")) if self.feat.get("fixed_contchars", True) else "&"
                    self.used.setdefault("fixed-contchar", set()).add(cc)
                    if self.feat.get("comments", True) and ch.bool(1, 4):
                        pool = ["C between zc0x4w0", "c it's zc0x4w1", "* x = 1", "! plain zc0x4w2", "", "   "]
                        if self.feat.get("fixed_wide_blanks", True):
                            # a blank line longer than six characters; a `!` comment that starts in the statement field
                            pool += ["        ", "       ! column eight zc0x4w3", "          ! it's indented zc0x4w4"]
                        between[len(rows)] = [ch.choice(pool) for _ in range(ch.count(1, 2))]
                        self.used.setdefault("fixed-comment-between-continuation", set()).add("yes")
                    rows.append("     " + cc + pc)
            if not length_limit and ch.bool(1, 4):
                # blanks are insignificant in fixed form: push the statement text beyond column 72
                i = ch.int(len(rows))
                if len(rows[i]) < 76 and "'" not in rows[i] and '"' not in rows[i]:
                    rows[i] = rows[i][:6] + " " * (78 - len(rows[i])) + rows[i][6:]
            if not length_limit and any(len(r) > 72 for r in rows):
                self.used.setdefault("fixed-long-line", set()).add("yes")
            if any(len(r) > 72 for r in rows) and length_limit:
                self.fixed_ok = False
            # an ordinary trailing comment on a line that is continued
            if len(rows) > 1 and self.feat.get("comments", True) and self.feat.get("fixed_inline_comments", True) and ch.bool(1, 4):
                i = ch.int(len(rows) - 1)
                cand = rows[i] + " ! " + ch.choice(["trailing zc0x5w0", "it's zc0x5w1", "b = 2 zc0x5w2"])
                if len(cand) <= 72:
                    rows[i] = cand
                    self.used.setdefault("fixed-inline-comment-on-continued-line", set()).add("yes")
            # inline documentation on the last physical line of the statement
            inline = None
            if ln.post and ln.docsty == "post" and self.feat.get("inline_docs", True) and ch.bool(1, 3):
                cand = rows[-1] + " !" + m["docmark"] + ln.post[0]
                if len(cand) <= 72 or not length_limit:
                    rows[-1] = cand
                    inline = ln.post[0]
                    self.used.setdefault("fixed-inline-doc", set()).add("yes")
            for i, row in enumerate(rows):
                out.extend(between.get(i, []))
                if length_limit and self.feat.get("fixed_seqfield", True) and ch.bool(1, 6) and len(row) <= 72 \
                        and not row.lstrip().startswith("!"):        # (a comment line has no sequence field: all of it is comment)
                    row = row.ljust(72) + ch.choice(self.feat.get("seq_pool") or ["SEQ00010", "12345678", "x = 1", "abc"])
                    self.used.setdefault("fixed-seqfield", set()).add("yes")
                out.append(row)
            if len(pieces) > 1:
                self.used.setdefault("fixed-continuation", set()).add("yes")
            if ln.post:
                rest = ln.post[1:] if inline is not None else ln.post
                if ln.docsty == "post_alt" and rest:
                    out.append("!" + m["docmark_alt"] + rest[0])
                    for d in rest[1:]:
                        out.append("!" + d)
                else:
                    for d in rest:
                        out.append("!" + m["docmark"] + d)
            prev_alt = bool(ln.post) and ln.docsty == "post_alt"
        return "\n".join(out) + "\n"

    def break_fixed(self, txt, width=66):
        """Split a statement into pieces that fit columns 7-72 (66 chars), at safe points."""
        pieces = []
        rest = txt
        force = self.ch.bool(1, 3)
        while len(rest) > width or (force and len(rest) > 12):
            pts = [p for p in safe_break_points(rest) if p <= width]
            if not pts:
                break
            long_pts = [p for p in pts if p > 66]
            if width > 66 and long_pts:
                k = self.ch.choice(long_pts)      # limit off: continue a line that runs past column 72
            else:
                k = self.ch.choice(pts) if force else pts[-1]
            pieces.append(rest[:k])
            rest = rest[k:]
            force = force and self.ch.bool(1, 2)      # (three and more lines: continuation lines that are continued)
        pieces.append(rest)
        return pieces


def safe_break_points(txt):
    """Indices where a statement may be split between two lexical tokens: after ',' or before/after
    blanks, outside character literals."""
    pts = []
    q = None
    for i, c in enumerate(txt):
        if q:
            if c == q:
                q = None
            continue
        if c in "'\"":
            q = c
            continue
        if c == "," and i + 1 < len(txt):
            pts.append(i + 1)
        elif c == " " and 0 < i < len(txt) - 1 and txt[i - 1] != " ":
            pts.append(i)
    return [p for p in pts if 0 < p < len(txt)]


def render_file(f, ch=None, marks=None, features=None, form=None, length_limit=True):
    r = Renderer(ch, marks, features)
    lines = []
    for u in f["units"]:
        lines += r.unit(u)
    form = form or f.get("form", "free")
    extras = {}
    if r.feat.get("include_split") and r.ch.bool(1, 2):
        # move a run of whole declarations (with their documentation) of a module into an include file
        runs, i = [], 0
        while i < len(lines):
            if lines[i].tag == "module-decl":
                j = i
                while j < len(lines) and lines[j].tag == "module-decl":
                    j += 1
                runs.append((i, j))
                i = j
            else:
                i += 1
        if runs:
            a, b = r.ch.choice(runs)
            a = a + r.ch.int(b - a)
            b = a + 1 + r.ch.int(b - a)
            inc_name = os.path.basename(f["path"]).rsplit(".", 1)[0] + "_decls.inc"
            extras[os.path.join(os.path.dirname(f["path"]), inc_name)] = (
                r.layout_fixed(lines[a:b], None, length_limit) if form == "fixed" else r.layout_free(lines[a:b], None))
            q = r.ch.choice(["'", '"'])
            lines[a:b] = [Line(f"{r.kw('include')} {q}{inc_name}{q}", nobreak=True)]
            r.used.setdefault("include-split", set()).add("yes")
            if r.ch.bool(1, 3):
                # an included file without any statement (a licence header): nothing of it appears, nothing is lost
                hdr_name = os.path.basename(f["path"]).rsplit(".", 1)[0] + "_header.inc"
                c = "C" if form == "fixed" and r.ch.bool() else "!"
                extras[os.path.join(os.path.dirname(f["path"]), hdr_name)] = "".join(
                    f"{c} header line {k} of {hdr_name}\n" for k in range(r.ch.count(1, 3)))
                hdr = [Line(f"{r.kw('include')} {q}{hdr_name}{q}", nobreak=True) for _ in range(r.ch.count(1, 2))]
                lines[a:a] = hdr
                r.used.setdefault("include-empty", set()).add("yes")
    if form == "fixed":
        text = r.layout_fixed(lines, f.get("doc"), length_limit)
        if not r.fixed_ok:
            r.used["fixed-unbreakable"] = {"yes"}
    else:
        text = r.layout_free(lines, f.get("doc"))
    return text, {k: sorted(v) for k, v in r.used.items()}, extras


def render_project(project, ch=None, marks=None, features=None, form=None, length_limit=True):
    files = {}
    used = {}
    for f in project["files"]:
        text, u, extras = render_file(f, ch, marks, features, form, length_limit)
        path = f["path"]
        if form == "fixed" and not path.endswith(".f"):
            ext = ".f"
            if (features or {}).get("fixed_exts") and ch is not None:
                ext = ch.choice([".f", ".f", ".for", ".F", ".FOR"])     # every extension FORD documents as fixed form
            path = path.rsplit(".", 1)[0] + ext
        files[path] = text
        files.update(extras)
        for k, v in u.items():
            used.setdefault(k, set()).update(v)
    return files, {k: sorted(v) for k, v in used.items()}
