"""FORD objects (after Project.correlate()) -> canonical plain-data tree comparable with
model.canon_project().  This is the single place where "FORD stores one fact in two
alternative fields" is absorbed; it normalises only what the property statements call
equivalent (letter case, blanks outside literals, array spec on entity vs attribute,
optional/parameter as flag vs attribute)."""
from __future__ import annotations

import os
import re

from vfw.model import squash


def _name(x):
    if x is None:
        return None
    if isinstance(x, str):
        return x.strip().lower()
    return str(getattr(x, "name", x)).strip().lower()


def docwords(obj):
    """Word sequence of the raw documentation attached to an entity."""
    words = []
    for line in getattr(obj, "doc_list", None) or []:
        words.extend(str(line).split())
    return words


_TAG = __import__("re").compile(r"<[^>]*>")
USE_RENDERED = False      # doctracers(): read the rendered `doc` (after Project.markdown) instead of doc_list


def doctracers(obj):
    """Tracer tokens of an entity's documentation: in the raw doc lines *and metadata*, or - once
    Project.markdown() has run - in the rendered HTML (`doc`) plus metadata values."""
    from vfw.model import TRACER
    import html as _html
    out = []
    meta = getattr(obj, "meta", None)
    for key in ("author", "version", "since", "category", "date", "license", "summary"):
        v = getattr(meta, key, None) if meta is not None else None
        if isinstance(v, (list, tuple)):
            v = " ".join(str(x) for x in v)
        if isinstance(v, str):
            out.extend(t for t in TRACER.findall(_TAG.sub("", v)) if t[1] in "ms")
    doc = getattr(obj, "doc", None) if USE_RENDERED else None
    if isinstance(doc, str):
        out.extend(t for t in TRACER.findall(_html.unescape(_TAG.sub("", doc))))
    else:
        for line in getattr(obj, "doc_list", None) or []:
            out.extend(TRACER.findall(str(line)))
    return [t for t in out if t[1] == "q"] + sorted(t for t in out if t[1] != "q")


def var(v, in_common=False):
    """FortranVariable -> canonical record (same keys as model.canon_var)."""
    import ford.sourceform as sf
    if not isinstance(v, sf.FortranVariable):
        if isinstance(v, (sf.FortranProcedure, sf.FortranInterface)):
            return {"kind_": "procarg", "name": _name(v)}
        return {"kind_": "unparsed", "name": _name(v)}
    attrs = set()
    dim = squash(v.dimension) or None
    for a in v.attribs:
        a_ = squash(a)
        if a_.startswith("dimension("):
            dim = a_[len("dimension"):]
        elif a_ in ("public", "private", "protected"):
            pass
        else:
            attrs.add(a_)
    if v.optional:
        attrs.add("optional")
    if v.parameter:
        attrs.add("parameter")
    proto = None
    if v.proto:
        proto = _name(v.proto[0])
        if proto == "":
            proto = None
    initial = v.initial
    if initial is not None and not isinstance(initial, str):
        initial = str(initial)
    return {
        "kind_": "variable", "name": _name(v.name), "vartype": squash_type(v.vartype),
        "kind": squash(v.kind) if v.kind else None, "strlen": squash(v.strlen) if v.strlen else None,
        "proto": proto, "attrs": sorted(attrs), "dim": dim, "intent": (v.intent or "").lower(),
        "initial": squash(initial) if initial not in (None, "") else None, "points": bool(v.points),
        "permission": (v.permission or "").lower(), "doc": docwords(v), "doctr": doctracers(v),
    }


def squash_type(vt):
    vt = (vt or "").lower().strip()
    return re.sub(r"\s+", " ", vt)


def retvar(v):
    import ford.sourceform as sf
    if isinstance(v, sf.FortranVariable):
        return var(v)
    return {"kind_": "unparsed", "name": _name(v)}


def strip_for_ret(rec, expected):
    return rec


def proc(p, expected_perm=None):
    import ford.sourceform as sf
    if isinstance(p, sf.FortranModuleProcedureImplementation):
        return {"kind_": "modproc", "name": _name(p.name)}
    d = {
        "kind_": p.proctype.lower(), "name": _name(p.name),
        "args": [var(a) for a in p.args],
        "prefix": sorted(a.lower() for a in p.attribs),
        "bind": squash(p.bindC) if getattr(p, "bindC", None) else None,
        "retvar": retvar(p.retvar) if hasattr(p, "retvar") and p.retvar is not None else None,
        "permission": (p.permission or "").lower(), "doc": docwords(p), "doctr": doctracers(p), "calls": calls_of(p),
    }
    d.update(scope(p))
    return d


def calls_of(u):
    from vfw.refsem import ford_ident
    out = []
    for c in getattr(u, "calls", []) or []:
        out.append("unresolved:" + c.lower() if isinstance(c, str) else (ford_ident(c) or "?"))
    return sorted(out)


def ftype(t):
    comps = [var(v) for v in getattr(t, "local_variables", t.variables)]
    binds = []
    inherited_generics = set()
    anc = t.extends
    seen = []
    while anc is not None and not isinstance(anc, str) and not any(anc is x for x in seen):
        seen.append(anc)            # (a malformed file may make a type extend itself)
        inherited_generics.update(squash(b.name) for b in anc.boundprocs if b.generic)
        anc = getattr(anc, "extends", None)
    for b in t.boundprocs:
        if b.parent is not t:
            continue            # inherited (FORD copies them into the child by design)
        if b.generic and squash(b.name) in inherited_generics:
            continue            # inherited generic: FORD re-parents a copy (generated names are unique)
        binds.append({
            "name": squash(b.name), "generic": bool(b.generic), "deferred": bool(b.deferred),
            "targets": sorted(_name(x) for x in b.bindings) if b.generic else [_name(x) for x in b.bindings],
            "iface": _name(b.proto) if b.proto else None,
            "attrs": sorted(squash(a) for a in b.attribs),
            "permission": (b.permission or "").lower(), "doc": docwords(b), "doctr": doctracers(b),
        })
    attrs = sorted(squash(a) for a in t.attribs)
    return {
        "kind_": "type", "name": _name(t.name), "extends": _name(t.extends) if t.extends else None,
        "attrs": attrs, "sequence": bool(t.sequence),
        "components": sorted(comps, key=lambda v: v["name"]),
        "binds": sorted(binds, key=lambda b: b["name"]),
        "finals": sorted(_name(f.name) for f in t.finalprocs),
        "permission": (t.permission or "").lower(), "doc": docwords(t), "doctr": doctracers(t),
    }


def scope(u):
    """children of a scoping unit"""
    import ford.sourceform as sf
    d = {}
    vs = []
    seen = set()
    for v in getattr(u, "variables", []):
        if id(v) not in seen:
            seen.add(id(v))
            vs.append(var(v))
    commons = []
    for c in getattr(u, "common", []):
        names = []
        for v in c.variables:
            names.append(_name(v))
            # FORD moves a variable that is in a common block from the unit to the block
            if isinstance(v, sf.FortranVariable) and id(v) not in seen and v.parent is not c:
                seen.add(id(v))
                vs.append(var(v))
            elif isinstance(v, sf.FortranVariable) and v.parent is c:
                vs.append(dict(var(v), kind_="implicit-in-common"))
        commons.append({"name": _name(c.name) or "", "vars": names, "doc": docwords(c), "doctr": doctracers(c)})
    d["variables"] = sorted(vs, key=lambda v: v["name"])
    d["types"] = sorted((ftype(t) for t in getattr(u, "types", [])), key=lambda t: t["name"])
    generics, ifprocs = [], []
    for i in getattr(u, "interfaces", []):
        if isinstance(i, sf.FortranModuleProcedureInterface) or not getattr(i, "generic", False):
            pr = proc(i.procedure)
            pr["permission"] = (i.permission or "").lower()
            ifprocs.append(pr)
        else:
            generics.append({
                "kind_": "interface", "name": squash(i.name),
                "modprocs": sorted(_name(m.name) for m in i.modprocs) +
                            sorted(_name(v.name) for v in getattr(i, "variables", [])),
                "bodies": sorted((proc(b) for b in list(i.functions) + list(i.subroutines)), key=lambda p: p["name"]),
                "permission": (i.permission or "").lower(), "doc": docwords(i), "doctr": doctracers(i),
            })
            generics[-1]["modprocs"].sort()
    d["interfaces"] = sorted(generics, key=lambda x: x["name"])
    absints = []
    for i in getattr(u, "absinterfaces", []):
        pr = proc(i.procedure)
        pr["permission"] = (i.permission or "").lower()
        absints.append(pr)
    d["absinterfaces"] = sorted(absints, key=lambda x: x["name"])
    d["ifprocs"] = sorted(ifprocs, key=lambda x: x["name"])
    enums = []
    for e in getattr(u, "enums", []):
        enums.append([{"name": _name(v.name), "value": squash(str(v.initial)) if v.initial is not None else None}
                      for v in e.variables])
    d["enums"] = sorted(enums, key=lambda e: e[0]["name"] if e else "")
    d["commons"] = sorted(commons, key=lambda c: (c["name"], c["vars"]))
    d["namelists"] = sorted(({"name": _name(n.name), "vars": [_name(v) for v in n.variables], "doc": docwords(n), "doctr": doctracers(n)}
                             for n in getattr(u, "namelists", [])), key=lambda n: n["name"])
    procs = []
    modprocs = []
    for p in list(getattr(u, "functions", [])) + list(getattr(u, "subroutines", [])) + \
            list(getattr(u, "modfunctions", [])) + list(getattr(u, "modsubroutines", [])):
        procs.append(proc(p))
    for p in getattr(u, "modprocedures", []):
        modprocs.append({"kind_": "modproc", "name": _name(p.name)})
    d["procs"] = sorted(procs, key=lambda p: p["name"])
    d["modprocs"] = sorted(modprocs, key=lambda p: p["name"])
    uses = set()
    for x in getattr(u, "uses", []):
        if isinstance(x, (list, tuple)):
            x = x[0]
        uses.add(_name(x))
    d["uses"] = sorted(uses)
    return d


def unit(u):
    import ford.sourceform as sf
    if isinstance(u, sf.FortranProcedure):
        return proc(u)
    if isinstance(u, sf.FortranSubmodule):
        d = {"kind_": "submodule", "name": _name(u.name), "ancestor": _name(u.ancestor_module),
             "parent": _name(u.parent_submodule) if u.parent_submodule else None, "doc": docwords(u), "doctr": doctracers(u)}
        d.update(scope(u))
        return d
    if isinstance(u, sf.FortranModule):
        d = {"kind_": "module", "name": _name(u.name), "doc": docwords(u), "doctr": doctracers(u)}
        d.update(scope(u))
        return d
    if isinstance(u, sf.FortranProgram):
        d = {"kind_": "program", "name": _name(u.name), "doc": docwords(u), "doctr": doctracers(u), "calls": calls_of(u)}
        d.update(scope(u))
        return d
    if isinstance(u, sf.FortranBlockData):
        nm = _name(u.name)
        if nm == "<em>unnamed</em>":
            nm = ""
        sc = scope(u)
        return {"kind_": "blockdata", "name": nm, "variables": sc["variables"], "types": sc["types"],
                "commons": sc["commons"], "uses": sc["uses"], "doc": docwords(u), "doctr": doctracers(u)}
    return {"kind_": "unknown", "name": _name(u)}


def project_tree(project, root):
    out = {}
    for f in project.files:
        rel = os.path.relpath(f.path, root)
        units = []
        for coll in ("modules", "submodules", "programs", "functions", "subroutines", "blockdata"):
            for u in getattr(f, coll, []):
                units.append(unit(u))
        out[rel] = sorted(units, key=lambda u: (u["kind_"], u["name"]))
    from vfw.model import strip_unclaimed_permissions
    return strip_unclaimed_permissions(out)
