"""Campaign runner: tiers, seeds, 16-way sharding, collection of failures by signature,
known-finding handling, fresh-process confirmation, evidence, VIOLATION lines.

A property module ``vfw.props.cNN`` provides

    ID, LEVEL, RULE, ASSUMPTIONS, TECHNIQUE
    budget(tier)            -> {"examples": int, ...}
    strategy(tier, excl)    -> hypothesis strategy of *concrete* JSON-able case dicts (or None)
    enumerated(tier, excl)  -> iterable of concrete case dicts (finite part; or None)
    check(case)             -> vfw.runner.Result
    EXHAUSTIVE (optional)   -> bool, the enumerated part is a complete finite space

A *case* is plain data (files, options, expected answer ...), so that replaying a case
needs neither Hypothesis nor the generator: ``check(json.load(replay)["case"])``.

Exit codes: 0 property held on everything explored, 1 violation (with a VIOLATION line),
2 harness error (never prints a VIOLATION line).
"""
from __future__ import annotations

import argparse
import contextlib
import hashlib
import importlib
import io
import json
import multiprocessing as mp
import os
import subprocess
import sys
import time
import traceback
from collections import Counter
from dataclasses import dataclass, field
from pathlib import Path

VERIF = Path(__file__).resolve().parent.parent
NSHARDS = int(os.environ.get("VERIF_SHARDS", "16"))


# --------------------------------------------------------------------------- results
@dataclass
class Failure:
    signature: str          # root-cause bucket (feature tag of the diff entry)
    message: str            # human readable diff entry


@dataclass
class Result:
    failures: list = field(default_factory=list)     # [Failure]
    nontrivial: bool = False
    classes: list = field(default_factory=list)      # labels for the distribution
    sample: object = None                            # what to show in evidence (defaults to case)
    evaluations: int = 1                             # executions of the code under test in this case
    digest: str | None = None                        # identity of the case for distinct counting

    def fail(self, signature, message):
        self.failures.append(Failure(signature, str(message)[:2000]))


class HarnessError(Exception):
    """The generator/oracle is at fault (invalid input generated, tool missing ...)."""


def isolated(fn, case, timeout=120):
    """Run fn(case) in a forked child so that no state leaks between cases and a hang can be
    killed.  -> (Result | None, status) with status in ok / timeout / crashed:<info>."""
    import pickle
    import select
    import signal as _signal
    r, w = os.pipe()
    pid = os.fork()
    if pid == 0:
        try:
            os.close(r)
            try:
                payload = pickle.dumps(("ok", fn(case)))
            except BaseException as e:      # noqa
                payload = pickle.dumps(("exc", f"{type(e).__name__}: {e}\n{traceback.format_exc()[-1500:]}"))
            with os.fdopen(w, "wb") as f:
                f.write(payload)
        finally:
            os._exit(0)
    os.close(w)
    chunks = []
    deadline = time.time() + timeout
    status = "ok"
    with os.fdopen(r, "rb") as f:
        while True:
            left = deadline - time.time()
            if left <= 0:
                status = "timeout"
                break
            ready, _, _ = select.select([f], [], [], min(left, 1.0))
            if ready:
                data = os.read(f.fileno(), 1 << 20)
                if not data:
                    break
                chunks.append(data)
    if status == "timeout":
        try:
            os.kill(pid, _signal.SIGKILL)
        except ProcessLookupError:
            pass
    os.waitpid(pid, 0)
    if status == "timeout":
        return None, "timeout"
    try:
        kind, val = pickle.loads(b"".join(chunks))
    except Exception as e:
        return None, f"crashed:{type(e).__name__}"
    if kind == "exc":
        return None, "crashed:" + val
    return val, "ok"


def case_digest(case) -> str:
    return hashlib.sha1(json.dumps(case, sort_keys=True, default=str).encode()).hexdigest()[:16]


def jsize(case) -> int:
    return len(json.dumps(case, default=str))


# --------------------------------------------------------------------------- known findings
def load_known(pid):
    path = VERIF / "known_findings.json"
    if not path.exists():
        return []
    data = json.loads(path.read_text())
    return [f for f in data.get("findings", []) if f["property"] == pid]


def excludes_for(known):
    ex = set()
    for f in known:
        if f["status"] == "open":
            ex.update(f.get("excludes", []))
    return sorted(ex)


# --------------------------------------------------------------------------- worker
class _Stats:
    def __init__(self):
        self.evaluations = 0
        self.cases = 0
        self.nontrivial = set()
        self.nontrivial_enum = 0      # distinct by construction (enumerated), counted only
        self.classes = Counter()
        self.samples = []
        self.failures = {}      # signature -> {"case", "message", "size", "count"}
        self.suppressed = Counter()
        self.budget_reached = False

    def absorb(self, case, res: Result, suppressed_sigs, want_samples=3):
        self.cases += 1
        self.evaluations += res.evaluations
        for c in res.classes:
            self.classes[c] += 1
        if res.nontrivial:
            if res.digest == "enum":
                self.nontrivial_enum += 1
            else:
                self.nontrivial.add(res.digest or case_digest(case))
            if len(self.samples) < want_samples:
                self.samples.append(res.sample if res.sample is not None else case)
        new = []
        for f in res.failures:
            if f.signature in suppressed_sigs:
                self.suppressed[f.signature] += 1
                continue
            new.append(f)
            slot = self.failures.get(f.signature)
            size = jsize(case)
            if slot is None or size < slot["size"]:
                self.failures[f.signature] = {
                    "case": case, "message": f.message, "size": size,
                    "count": (slot["count"] if slot else 0) + 1,
                }
            else:
                slot["count"] += 1
        return new

    def export(self):
        return {
            "evaluations": self.evaluations, "cases": self.cases,
            "nontrivial": sorted(self.nontrivial), "nontrivial_enum": self.nontrivial_enum, "classes": dict(self.classes),
            "samples": self.samples, "failures": self.failures,
            "suppressed": dict(self.suppressed), "budget_reached": self.budget_reached,
        }


def _quiet_check(mod, case) -> Result:
    """Run mod.check with stdout/stderr of the code under test swallowed."""
    buf = io.StringIO()
    with contextlib.redirect_stdout(buf), contextlib.redirect_stderr(buf):
        return mod.check(case)


def _hyp_settings(n, shrink):
    from hypothesis import settings, HealthCheck, Phase
    phases = [Phase.generate] + ([Phase.shrink] if shrink else [])
    return settings(
        max_examples=max(1, n), database=None, deadline=None, derandomize=False,
        report_multiple_bugs=False, phases=phases, print_blob=False,
        suppress_health_check=list(HealthCheck),
    )


def _worker(args):
    pid, tier, seed, shard, nshards, suppressed_sigs, excl = args
    os.environ.setdefault("FORD_DEBUGGING", "1")
    try:
        mod = importlib.import_module(f"vfw.props.{pid.lower()}")
        stats = _Stats()
        budget = mod.budget(tier)
        t0 = time.time()
        wall_cap = budget.get("wall_cap_s", 3600 if tier == "thorough" else 600)

        # ---- finite / enumerated part
        enum = mod.enumerated(tier, excl) if hasattr(mod, "enumerated") else None
        if enum is not None:
            for i, case in enumerate(enum):
                if i % nshards != shard:
                    continue
                stats.absorb(case, _quiet_check(mod, case), suppressed_sigs)

        # ---- random part (Hypothesis)
        strat = mod.strategy(tier, excl) if hasattr(mod, "strategy") else None
        n = budget.get("examples", 0) // nshards
        if strat is not None and n > 0:
            import hypothesis
            from hypothesis import given
            derived = seed * 1_000_003 + shard

            @hypothesis.seed(derived)
            @_hyp_settings(n, False)
            @given(strat)
            def collect(case):
                if time.time() - t0 > wall_cap:
                    stats.budget_reached = True
                    return
                stats.absorb(case, _quiet_check(mod, case), suppressed_sigs)

            collect()
        out = stats.export()
        for slot in out["failures"].values():
            slot["shard"] = shard
        return ("ok", shard, out)
    except HarnessError as e:
        return ("harness", shard, f"{e}\n{traceback.format_exc()}")
    except BaseException as e:
        return ("harness", shard, f"{type(e).__name__}: {e}\n{traceback.format_exc()}")


def _shrink_job(args):
    """Phase 2: Hypothesis-shrink one signature by replaying the seeded sequence of the shard
    that found it (runs in the pool, one job per distinct signature)."""
    pid, tier, seed, shard, nshards, excl, sig = args
    try:
        mod = importlib.import_module(f"vfw.props.{pid.lower()}")
        budget = mod.budget(tier)
        strat = mod.strategy(tier, excl)
        n = budget.get("examples", 0) // nshards
        derived = seed * 1_000_003 + shard
        return sig, _find_minimal(mod, strat, derived, n, sig, budget)
    except BaseException:
        return sig, None


def _find_minimal(mod, strat, derived, n, sig, budget):
    """Hypothesis-shrunk example for one signature (same seeded sequence)."""
    import hypothesis
    from hypothesis import given
    box = {}
    t0 = time.time()
    cap = budget.get("shrink_cap_s", 90)

    @hypothesis.seed(derived)
    @_hyp_settings(n, True)
    @given(strat)
    def prop(case):
        if time.time() - t0 > cap:
            return
        res = _quiet_check(mod, case)
        for f in res.failures:
            if f.signature == sig:
                box["min"] = (case, f.message)
                raise AssertionError(sig)
    try:
        prop()
    except BaseException:
        pass
    return box.get("min")


# --------------------------------------------------------------------------- replay
def replay_file(mod, path):
    data = json.loads(Path(path).read_text())
    res = _quiet_check(mod, data["case"])
    return data, res


def cmd_replay(mod, path):
    data, res = replay_file(mod, path)
    want = data.get("signature")
    hit = [f for f in res.failures if want is None or f.signature == want]
    other = [f for f in res.failures if f not in hit]
    for f in hit:
        print(f"REPRODUCED property={mod.ID} signature={f.signature}\n  {f.message}")
    for f in other:
        print(f"OTHER-FAILURE property={mod.ID} signature={f.signature}\n  {f.message}")
    if hit:
        print(f"VIOLATION property={mod.ID} replay={path}")
        return 1
    if other:
        return 3
    print(f"replay passes: property={mod.ID} {path}")
    return 0


def _fresh_replay(pid, path):
    """Re-execute a replay file in a fresh interpreter. -> (exit code, output)"""
    env = dict(os.environ, PYTHONHASHSEED="0", FORD_DEBUGGING="1")
    p = subprocess.run([sys.executable, str(VERIF / "check"), pid, "--replay", str(path)],
                       cwd=VERIF, env=env, capture_output=True, text=True, timeout=1800)
    return p.returncode, p.stdout + p.stderr


# --------------------------------------------------------------------------- campaign
def cmd_campaign(mod, tier, seed):
    pid = mod.ID
    t0 = time.time()
    known = load_known(pid)
    open_known = [k for k in known if k["status"] == "open"]
    fixed_known = [k for k in known if k["status"].startswith("fixed")]
    # signature-level suppression only where a finding says the trigger cannot be excluded
    # by construction ("suppress": true); otherwise the generator avoids the construct and
    # any failure in the campaign - whatever its signature - is a new violation
    suppressed_sigs = sorted({k["signature"] for k in open_known if k.get("suppress")})
    known_sigs = {k["signature"] for k in open_known}
    excl = excludes_for(known)
    lines = []
    violations = []        # (signature, replay path, message)
    harness_errors = []

    # 1. witnesses of known findings / fixed regressions (plain replays, no generator)
    known_report = []
    _witness_cache = {}
    for k in known:
        w = VERIF / k["witness"]
        if not w.exists():
            harness_errors.append(f"witness missing: {k['witness']}")
            continue
        try:
            if str(w) not in _witness_cache:
                _witness_cache[str(w)] = replay_file(mod, w)
            data, res = _witness_cache[str(w)]
        except HarnessError as e:
            harness_errors.append(f"witness {k['witness']}: {e}")
            continue
        sigs = {f.signature for f in res.failures}
        if k["status"] == "open":
            if k["signature"] in sigs:
                lines.append(f"KNOWN-FINDING: property={pid} {k['id']}: {k['what_fails']}")
                known_report.append({"id": k["id"], "still_fails": True})
            else:
                known_report.append({"id": k["id"], "still_fails": False})
            for s in sigs - known_sigs:
                f = next(f for f in res.failures if f.signature == s)
                violations.append((s, str(Path(k["witness"])), f.message))
        else:   # fixed: must pass now
            for f in res.failures:
                violations.append((f.signature, str(Path(k["witness"])), f.message))
            known_report.append({"id": k["id"], "regression": bool(res.failures)})

    # 2. the campaign, sharded
    nshards = NSHARDS
    jobs = [(pid, tier, seed, s, nshards, suppressed_sigs, excl) for s in range(nshards)]
    ctx = mp.get_context("spawn")
    with ctx.Pool(nshards) as pool:
        outs = pool.map(_worker, jobs, chunksize=1)

    merged = {"evaluations": 0, "cases": 0, "nontrivial": set(), "nontrivial_enum": 0, "classes": Counter(),
              "samples": [], "failures": {}, "suppressed": Counter(), "budget_reached": False}
    for status, shard, payload in outs:
        if status != "ok":
            harness_errors.append(f"shard {shard}: {payload}")
            continue
        merged["evaluations"] += payload["evaluations"]
        merged["cases"] += payload["cases"]
        merged["nontrivial"].update(payload["nontrivial"])
        merged["nontrivial_enum"] += payload["nontrivial_enum"]
        merged["classes"].update(payload["classes"])
        merged["suppressed"].update(payload["suppressed"])
        merged["budget_reached"] |= payload["budget_reached"]
        if len(merged["samples"]) < 4:
            merged["samples"].extend(payload["samples"][: 4 - len(merged["samples"])])
        for sig, slot in payload["failures"].items():
            cur = merged["failures"].get(sig)
            if cur is None or slot["size"] < cur["size"]:
                slot = dict(slot, count=slot["count"] + (cur["count"] if cur else 0))
                merged["failures"][sig] = slot
            else:
                cur["count"] += slot["count"]

    # 2b. shrink (Hypothesis) one case per distinct new signature, in parallel; fall back to
    #     the smallest observed case when shrinking does not finish within its cap
    todo = [(sig, slot) for sig, slot in sorted(merged["failures"].items())
            if not sig.startswith("HARNESS:") and "shard" in slot and not slot.get("enum")][:8]
    if todo and not mod.budget(tier).get("no_shrink") and hasattr(mod, "strategy"):
        sjobs = [(pid, tier, seed, slot["shard"], nshards, excl, sig) for sig, slot in todo]
        with ctx.Pool(min(nshards, len(sjobs))) as pool:
            for sig, minimal in pool.map(_shrink_job, sjobs, chunksize=1):
                slot = merged["failures"][sig]
                if minimal is not None and jsize(minimal[0]) <= slot["size"]:
                    slot["case"], slot["message"] = minimal
                    slot["size"] = jsize(minimal[0])
                    slot["shrunk"] = True

    # 3. every candidate violation is confirmed from its replay file in a fresh process
    (VERIF / "replays").mkdir(exist_ok=True)
    for sig, slot in sorted(merged["failures"].items()):
        if sig.startswith("HARNESS:"):
            harness_errors.append(f"{sig} ({slot['count']} cases): {slot['message'][:600]}")
            continue
        body = {"property": pid, "signature": sig, "message": slot["message"],
                "seed": seed, "tier": tier, "occurrences": slot["count"],
                "shrunk": bool(slot.get("shrunk")), "case": slot["case"]}
        h = hashlib.sha1(json.dumps(body["case"], sort_keys=True, default=str).encode()).hexdigest()[:10]
        rp = Path("replays") / f"{pid}-{h}.json"
        (VERIF / rp).write_text(json.dumps(body, indent=1, default=str))
        code, out = _fresh_replay(pid, rp)
        if code == 1:
            violations.append((sig, str(rp), slot["message"]))
        else:
            harness_errors.append(
                f"candidate {sig} did not reproduce in a fresh process (exit {code}): {rp}\n{out[-1500:]}")

    # 4. evidence
    wall = time.time() - t0
    samples = [_truncate(s) for s in merged["samples"]] or ["(no non-trivial case)"]
    coverage = {
        "evaluations": merged["evaluations"],
        "cases": merged["cases"],
        "distinct_nontrivial": len(merged["nontrivial"]) + merged["nontrivial_enum"],
        "rule": mod.RULE,
        "samples": samples,
        "classes": dict(sorted(merged["classes"].items())),
        "excluded_by_known_finding": {"generator_flags": excl,
                                      "suppressed_signature_hits": dict(merged["suppressed"])},
        "known_findings": known_report,
        "budget_reached": merged["budget_reached"],
        "shards": nshards,
    }
    if getattr(mod, "EXHAUSTIVE", False):
        coverage["exhaustive"] = True
    if hasattr(mod, "extra_evidence"):
        coverage.update(mod.extra_evidence(tier))
    evidence = {
        "property_id": pid, "tier": tier, "seed": seed, "level": mod.LEVEL,
        "coverage": coverage, "assumptions": list(mod.ASSUMPTIONS),
        "wall_s": round(wall, 2), "violations": len(violations),
    }
    # evidence describes runs against /repo itself; a run against another tree (FORD_REPO=<scratch copy>, used to
    # try seeded changes) must not overwrite it
    edir = VERIF / ("evidence" if os.path.realpath(os.environ.get("FORD_REPO", "/repo")) == "/repo" else "evidence-scratch")
    edir.mkdir(exist_ok=True)
    (edir / f"{pid}.json").write_text(json.dumps(evidence, indent=1, default=str))

    # 5. report
    for ln in lines:
        print(ln)
    print(f"{pid} tier={tier} seed={seed}: cases={merged['cases']} evaluations={merged['evaluations']} "
          f"distinct_nontrivial={len(merged['nontrivial']) + merged['nontrivial_enum']} wall={wall:.1f}s "
          f"suppressed={dict(merged['suppressed'])}")
    if harness_errors:
        for h in harness_errors:
            print("HARNESS-ERROR:", h, file=sys.stderr)
    for sig, rp, msg in violations:
        print(f"  signature={sig}: {msg[:400]}")
        print(f"VIOLATION property={pid} replay={rp}")
    if violations:
        return 1
    if harness_errors:
        return 2
    return 0


def _truncate(obj, limit=3000):
    s = json.dumps(obj, default=str)
    if len(s) <= limit:
        return obj
    return {"truncated_json": s[:limit] + "..."}


# --------------------------------------------------------------------------- entry
def main(argv=None):
    ap = argparse.ArgumentParser(prog="check")
    ap.add_argument("prop")
    ap.add_argument("--tier", default=os.environ.get("VERIF_TIER") or "quick", choices=["quick", "thorough"])
    ap.add_argument("--replay")
    ap.add_argument("--seed", type=int, default=None)
    a = ap.parse_args(argv)
    seed = a.seed if a.seed is not None else int(os.environ.get("VERIF_SEED") or "1")
    pid = a.prop.upper()
    os.environ.setdefault("FORD_DEBUGGING", "1")
    try:
        mod = importlib.import_module(f"vfw.props.{pid.lower()}")
    except Exception:
        traceback.print_exc()
        return 2
    try:
        if a.replay:
            return cmd_replay(mod, a.replay)
        return cmd_campaign(mod, a.tier, seed)
    except HarnessError as e:
        print("HARNESS-ERROR:", e, file=sys.stderr)
        return 2
    except Exception:
        traceback.print_exc()
        return 2
