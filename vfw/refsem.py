"""Reference semantics on the abstract model: accessibility, USE association, host association
and name resolution, written from F2008 (5.3.2, 11.2.2, 16.5.1.4) - *not* from FORD's code.

Entities are identified by their path "unit/.../name" (lower case).  Name classes:
  type   derived types
  proc   procedures, generic interfaces, interface-body procedures, dummy procedures,
         procedure pointers (module level)
  absint abstract interfaces
  var    variables / named constants
A reference of a given kind looks in the classes that can legally provide it.
"""
from __future__ import annotations

UNRESOLVED = None


class Scope:
    def __init__(self, path, node, kind, host=None):
        self.path = path              # tuple of names
        self.node = node
        self.kind = kind              # module submodule program proc ifbody blockdata
        self.host = host              # Scope or None
        self.locals = {"type": {}, "proc": {}, "absint": {}, "var": {}}
        self.access = {}              # (cls, name) -> public/private/protected
        self.children = []

    def ident(self, name):
        return "/".join(self.path + (name.lower(),))


class Sem:
    def __init__(self, project):
        self.project = project
        self.modules = {}             # name -> Scope
        self.submodules = {}
        self.scopes = {}              # path tuple -> Scope
        self.top = []
        self.ifbodies = {}
        for f in project["files"]:
            for u in f["units"]:
                self._scope(u, (), None)
        self._exports_cache = {}

    # ---- building the scope tree
    def _scope(self, u, prefix, host):
        k = u["k"]
        name = (u.get("name") or "").lower()
        kind = {"module": "module", "submodule": "submodule", "program": "program", "blockdata": "blockdata",
                "subroutine": "proc", "function": "proc", "modproc": "proc"}[k]
        s = Scope(prefix + (name,), u, kind, host)
        self.scopes[s.path] = s
        if kind == "module":
            self.modules[name] = s
        elif kind == "submodule":
            self.submodules[name] = s
        if host is None:
            self.top.append(s)
        else:
            host.children.append(s)
        default = u.get("default_access") or "public"
        if kind == "submodule":
            default = "private"

        def add(cls, nm, access=None):
            s.locals[cls][nm.lower()] = s.ident(nm)
            s.access[(cls, nm.lower())] = access or default

        for d in u.get("decls", []):
            if d["d"] == "var":
                for e in d["ents"]:
                    add("var", e["name"], d.get("access"))
                    if d["ts"]["base"] == "procedure" and kind in ("module", "submodule"):
                        add("proc", e["name"], d.get("access"))
            elif d["d"] == "type":
                add("type", d["name"], d.get("access"))
            elif d["d"] == "interface":
                if d["form"] == "generic":
                    add("proc", d["name"], d.get("access"))
                    for b in d.get("bodies", []):
                        add("proc", b["name"], d.get("access"))
                        self._ifbody(b, s)
                elif d["form"] == "abstract":
                    for b in d["bodies"]:
                        add("absint", b["name"], b.get("access"))
                        self._ifbody(b, s)
                else:
                    for b in d["bodies"]:
                        add("proc", b["name"], b.get("access"))
                        self._ifbody(b, s)
            elif d["d"] == "enum":
                for n, _ in d["items"]:
                    add("var", n)
        for p in u.get("procs", []):
            if p["k"] != "modproc":
                add("proc", p["name"], p.get("access"))
            self._scope(p, s.path, s)
        return s

    def _ifbody(self, b, host):
        s = Scope(host.path + (b["name"].lower(),), b, "ifbody", host)
        self.scopes.setdefault(s.path + ("<ifbody>",), s)
        host.children.append(s)
        for d in b.get("decls", []):
            if d["d"] == "var":
                for e in d["ents"]:
                    s.locals["var"][e["name"].lower()] = s.ident(e["name"])
        self.ifbodies[id(b)] = s
        return s

    # ---- USE association
    def exports(self, mname):
        mname = mname.lower()
        if mname in self._exports_cache:
            return self._exports_cache[mname]
        m = self.modules.get(mname)
        out = {"type": {}, "proc": {}, "absint": {}, "var": {}}
        self._exports_cache[mname] = out        # guards against (illegal) cycles
        if m is None:
            return out
        for cls in out:
            for n, ent in m.locals[cls].items():
                if m.access[(cls, n)] in ("public", "protected"):
                    out[cls][n] = ent
        default_private = (m.node.get("default_access") == "private")
        explicit_public = set(x.lower() for x in m.node.get("public_names", []))
        explicit_private = set(x.lower() for x in m.node.get("private_names", []))
        for u in m.node.get("uses", []):
            imp = self.imports(u)
            for cls in out:
                for loc, ent in imp[cls].items():
                    if loc in explicit_private:
                        continue
                    if not default_private or loc in explicit_public:
                        out[cls].setdefault(loc, ent)
        return out

    def imports(self, u):
        X = self.exports(u["module"])
        out = {"type": {}, "proc": {}, "absint": {}, "var": {}}
        if u.get("only") is not None:
            for loc, rem in u["only"]:
                rem = (rem or loc).lower()
                for cls in out:
                    if rem in X[cls]:
                        out[cls][loc.lower()] = X[cls][rem]
            return out
        ren = {}
        for loc, rem in u.get("renames", []):
            ren.setdefault(rem.lower(), []).append(loc.lower())
        for cls in out:
            for n, ent in X[cls].items():
                if n in ren:
                    for loc in ren[n]:
                        out[cls][loc] = ent
                else:
                    out[cls][n] = ent
        return out

    # ---- visibility
    def visible(self, s: Scope):
        if s.kind == "ifbody":
            host = {"type": {}, "proc": {}, "absint": {}, "var": {}}
            imp = s.node.get("import")
            if imp is not None and s.host is not None:
                hv = self.visible(s.host)
                for cls in host:
                    for n in imp:
                        if n.lower() in hv[cls]:
                            host[cls][n.lower()] = hv[cls][n.lower()]
        elif s.kind == "submodule":
            pname = (s.node.get("parent") or "").lower()
            parent = self.submodules.get(pname) if pname else self.modules.get(s.node["ancestor"].lower())
            host = {"type": {}, "proc": {}, "absint": {}, "var": {}}
            if parent is not None:
                pv = self.visible(parent)
                host = {cls: dict(pv[cls]) for cls in pv}
        elif s.host is not None:
            hv = self.visible(s.host)
            host = {cls: dict(hv[cls]) for cls in hv}
        else:
            host = {"type": {}, "proc": {}, "absint": {}, "var": {}}
        used = {"type": {}, "proc": {}, "absint": {}, "var": {}}
        for u in s.node.get("uses", []):
            imp = self.imports(u)
            for cls in used:
                used[cls].update(imp[cls])
        out = {}
        all_local_names = set()
        for cls in s.locals:
            all_local_names.update(s.locals[cls])
        all_used_names = set()
        for cls in used:
            all_used_names.update(used[cls])
        for cls in host:
            d = {}
            for n, e in host[cls].items():
                # a local or use-associated entity of any class hides the host entity of that name
                if n not in all_local_names and n not in all_used_names:
                    d[n] = e
            for n, e in used[cls].items():
                if n not in all_local_names:
                    d[n] = e
            d.update(s.locals[cls])
            out[cls] = d
        return out

    def resolve(self, s: Scope, name, classes):
        v = self.visible(s)
        for cls in classes:
            if name.lower() in v[cls]:
                return v[cls][name.lower()]
        return UNRESOLVED


def ford_ident(obj):
    """Identity of a FORD entity comparable with Scope.ident: unit/.../name."""
    import ford.sourceform as sf
    if obj is None or isinstance(obj, str):
        return None
    if isinstance(obj, sf.FortranProcedure) and obj.is_interface_procedure:
        obj = obj.parent
    names = [str(obj.name).lower().replace(" ", "")]
    cur = getattr(obj, "parent", None)
    while cur is not None and not isinstance(cur, sf.FortranSourceFile):
        if isinstance(cur, sf.FortranInterface) and not isinstance(cur, sf.FortranModuleProcedureInterface) \
                and not cur.name:
            cur = cur.parent
            continue
        names.append(str(cur.name).lower().replace(" ", ""))
        cur = getattr(cur, "parent", None)
    return "/".join(reversed(names))
