"""Thin, in-process access to FORD from /repo's working tree (editable install or FORD_REPO)."""
from __future__ import annotations

import contextlib
import io
import os
import shutil
import sys
import tempfile
from pathlib import Path

REPO = os.environ.get("FORD_REPO", "/repo")
if REPO not in sys.path:
    sys.path.insert(0, REPO)
os.environ.setdefault("FORD_DEBUGGING", "1")
if "/venv/bin" not in os.environ.get("PATH", ""):
    os.environ["PATH"] = "/venv/bin:" + os.environ.get("PATH", "")


def reset_global_state():
    """What the repository's own `restore_nameselector` fixture does."""
    import ford.sourceform
    ford.sourceform.namelist = ford.sourceform.NameSelector()


class Sandbox:
    """A temporary project directory; removed on exit."""

    def __init__(self, files: dict, prefix="vfw-"):
        self.files = files
        self.prefix = prefix

    def __enter__(self) -> Path:
        self.dir = Path(tempfile.mkdtemp(prefix=self.prefix))
        write_files(self.dir, self.files)
        return self.dir

    def __exit__(self, *exc):
        shutil.rmtree(self.dir, ignore_errors=True)
        return False


def write_files(root: Path, files: dict):
    for rel, text in files.items():
        p = root / rel
        p.parent.mkdir(parents=True, exist_ok=True)
        if isinstance(text, dict) and "b64" in text:
            import base64
            p.write_bytes(base64.b64decode(text["b64"]))
        elif isinstance(text, bytes):
            p.write_bytes(text)
        else:
            p.write_text(text, encoding="utf-8")


def parse_project(root: Path, src_dirs=("src",), file_order=None, keep_fpp=False, **options):
    """ProjectSettings -> Project -> correlate(). Returns (project, captured stdout).

    file_order: optional list of relative paths; when given, the harness owns the order in
    which source files are enumerated (ford.fortran_project.find_all_files is wrapped)."""
    import ford.fortran_project as fp
    from ford.settings import ProjectSettings

    reset_global_state()
    opts = dict(preprocess=False, parallel=0, quiet=False, warn=False)
    opts.update(options)
    settings = ProjectSettings(src_dir=[str(root / d) for d in src_dirs], **opts)
    settings.normalise_paths(root)
    if not keep_fpp:
        settings.fpp_extensions = []         # (keep_fpp: the upper-case extensions go through the preprocessor, pcpp in-process)
    buf = io.StringIO()
    orig = fp.find_all_files
    if file_order is not None:
        wanted = [Path(root / rel).resolve() for rel in file_order]

        def ordered(settings_):
            found = {Path(p).resolve(): p for p in orig(settings_)}
            out = [found.pop(w) for w in wanted if w in found]
            out.extend(sorted(found.values()))
            return out
        fp.find_all_files = ordered
    cwd = os.getcwd()
    try:
        os.chdir(root)
        with contextlib.redirect_stdout(buf), contextlib.redirect_stderr(buf):
            # rich's console resolves sys.stdout dynamically, so the redirect captures warn() too
            project = fp.Project(settings)
            project.correlate()
    finally:
        os.chdir(cwd)
        fp.find_all_files = orig
    return project, buf.getvalue()


def exception_signature(e: BaseException) -> str:
    import traceback
    tb = traceback.extract_tb(e.__traceback__)
    where = next((f"{os.path.basename(f.filename)}:{f.name}" for f in reversed(tb)
                  if "/ford/" in f.filename.replace("\\", "/")), "?")
    return f"exception:{type(e).__name__}@{where}"


def gfortran_check(files: dict, fixed=False, std="gnu", extra_stub: str | None = None, extra_flags=()):
    """Compile the given sources with gfortran -fsyntax-only in dependency order as given.
    -> (ok, stderr)"""
    import subprocess
    d = Path(tempfile.mkdtemp(prefix="vfw-gf-"))
    try:
        names = []
        if extra_stub:
            (d / "zz_stub.f90").write_text(extra_stub)
            names.append("zz_stub.f90")
        for i, (rel, text) in enumerate(files.items()):
            if rel.endswith(".inc"):
                (d / Path(rel).name).write_text(text)       # an include file: found by name, not compiled
                continue
            ext = Path(rel).suffix or ".f90"
            n = f"f{i}{ext}"
            (d / n).write_text(text)
            names.append(n)
        # files may be listed in any order: iterate to a fixpoint so that modules are
        # compiled before their users / submodules
        pending = list(names)
        errs = {}
        progress = True
        while pending and progress:
            progress = False
            for n in list(pending):
                flags = ["-ffixed-form"] if (fixed or n.endswith((".f", ".for"))) else []
                cmd = ["gfortran", "-fsyntax-only", f"-std={std}", *flags, *extra_flags, "-J", str(d), n]
                p = subprocess.run(cmd, cwd=d, capture_output=True, text=True, timeout=120)
                if p.returncode == 0:
                    pending.remove(n)
                    errs.pop(n, None)
                    progress = True
                else:
                    errs[n] = p.stderr[-1500:]
        ok = not pending
        errs = list(errs.values())
        return ok, "\n".join(errs)
    finally:
        shutil.rmtree(d, ignore_errors=True)
