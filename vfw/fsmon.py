"""File-system monitor built on sys.addaudithook: logs write-type operations, can inject an
OSError at the k-th such operation, and snapshots directory trees.

An audit hook cannot be removed, so one hook is installed per process and switched on/off
through a module-level controller."""
from __future__ import annotations

import hashlib
import os
import stat
import sys

WRITE_EVENTS = {"os.mkdir", "os.rmdir", "os.remove", "os.rename", "os.symlink", "os.link", "os.chmod", "os.chown",
                "os.truncate", "os.utime", "shutil.copyfile", "shutil.copymode", "shutil.copystat", "shutil.copytree",
                "shutil.rmtree", "shutil.move", "os.replace", "os.unlink"}


class Controller:
    def __init__(self):
        self.active = False
        self.log = []            # (event, path, extra)
        self.count = 0
        self.fail_at = None      # inject OSError at this write-type event (1-based)
        self.injected = None
        self.scope = None        # only paths under this root are of interest

    def reset(self, scope=None, fail_at=None):
        self.log = []
        self.count = 0
        self.fail_at = fail_at
        self.injected = None
        self.scope = os.path.realpath(scope) if scope else None


CTL = Controller()
_installed = False


def _is_write_open(args):
    # open(path, mode, flags)
    try:
        path, mode, flags = args[0], args[1], args[2]
    except Exception:
        return False
    if isinstance(path, int):
        return False
    if mode is not None:
        return any(c in str(mode) for c in "wax+")
    return bool(flags & (os.O_WRONLY | os.O_RDWR | os.O_CREAT | os.O_TRUNC | os.O_APPEND))


def _hook(event, args):
    if not CTL.active:
        return
    if event == "open":
        if not _is_write_open(args):
            return
        paths = [args[0]]
    elif event in WRITE_EVENTS:
        paths = [a for a in args[:2] if isinstance(a, (str, bytes, os.PathLike))]
        # os.remove / os.rmdir / os.mkdir (path, dir_fd): a relative path is relative to the directory fd
        if event in ("os.remove", "os.rmdir", "os.unlink", "os.mkdir") and len(args) > 1 and isinstance(args[1], int) \
                and args[1] >= 0 and paths:
            try:
                base = os.readlink(f"/proc/self/fd/{args[1]}")
                p0 = os.fspath(paths[0])
                if isinstance(p0, bytes):
                    p0 = p0.decode("utf-8", "replace")
                paths = [os.path.join(base, p0)]
            except OSError:
                pass
    else:
        return
    norm = []
    for p in paths:
        try:
            p = os.fspath(p)
            if isinstance(p, bytes):
                p = p.decode("utf-8", "replace")
            if not os.path.isabs(p):
                p = os.path.join(os.getcwd(), p)
            norm.append(os.path.normpath(p))
        except Exception:
            pass
    if CTL.scope is not None and not any(_under(os.path.realpath(os.path.dirname(p)) + "/" + os.path.basename(p), CTL.scope)
                                         or _under(p, CTL.scope) for p in norm):
        return
    CTL.count += 1
    CTL.log.append((event, norm))
    if CTL.fail_at is not None and CTL.count == CTL.fail_at:
        CTL.injected = (event, norm)
        raise OSError(28, f"injected fault at write operation #{CTL.count} ({event} {norm})")


def _under(path, root):
    path = os.path.normpath(path)
    root = os.path.normpath(root)
    return path == root or path.startswith(root + os.sep)


def install():
    global _installed
    if not _installed:
        sys.addaudithook(_hook)
        _installed = True


class watching:
    def __init__(self, scope, fail_at=None):
        self.scope, self.fail_at = scope, fail_at

    def __enter__(self):
        install()
        CTL.reset(self.scope, self.fail_at)
        CTL.active = True
        return CTL

    def __exit__(self, *exc):
        CTL.active = False
        return False


def snapshot(root, exclude=()):
    """path -> (kind, size, mode, sha1 | link target) for everything under root not under `exclude`."""
    out = {}
    root = os.path.normpath(root)
    ex = [os.path.normpath(e) for e in exclude]
    for dirpath, dirnames, filenames in os.walk(root, followlinks=False):
        if any(_under(dirpath, e) for e in ex):
            dirnames[:] = []
            continue
        for name in list(dirnames) + filenames:
            p = os.path.join(dirpath, name)
            if any(_under(p, e) for e in ex):
                continue
            st = os.lstat(p)
            rel = os.path.relpath(p, root)
            if stat.S_ISLNK(st.st_mode):
                out[rel] = ("link", os.readlink(p))
            elif stat.S_ISDIR(st.st_mode):
                out[rel] = ("dir", stat.S_IMODE(st.st_mode))
            else:
                with open(p, "rb") as f:
                    out[rel] = ("file", st.st_size, stat.S_IMODE(st.st_mode), hashlib.sha1(f.read()).hexdigest())
    return out
