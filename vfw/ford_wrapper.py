"""Run `ford` as the command line would, but with the order in which source files are
enumerated owned by the harness (env VFW_FILE_ORDER = JSON list of file names, first to last).
Used by C12: the *schedule* (file-system enumeration order) must not influence the output."""
import json
import os
import sys

sys.path.insert(0, os.environ.get("FORD_REPO", "/repo"))
import ford                      # noqa: E402
import ford.fortran_project as fp   # noqa: E402

order = json.loads(os.environ.get("VFW_FILE_ORDER", "null"))
if order is not None:
    orig = fp.find_all_files

    def ordered(settings):
        found = list(orig(settings))
        rank = {name: i for i, name in enumerate(order)}
        src = os.path.join(os.getcwd(), "src")

        def key(p):
            rel = os.path.relpath(str(p), src).replace(os.sep, "/")
            return (rank.get(rel, rank.get(os.path.basename(str(p)), len(rank))), str(p))
        found.sort(key=key)
        return found
    fp.find_all_files = ordered

# the order in which a directory's entries are enumerated is the file system's business too
listdir_order = os.environ.get("VFW_LISTDIR")
if listdir_order in ("asc", "desc"):
    _orig_listdir = os.listdir

    def _listdir(path="."):
        return sorted(_orig_listdir(path), reverse=listdir_order == "desc")
    os.listdir = _listdir

if __name__ == "__main__":
    sys.argv[0] = "ford"
    ford.run()
