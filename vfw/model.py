"""Abstract program model -> Fortran source (free and fixed form) and -> expected canonical tree.

The model is plain data (dicts/lists), produced by generators (vfw/gen.py and the property
modules).  Every node may carry a "sty" dict with *spelling* choices; `render_project` is a
pure function of model + styles.  `canon_project` derives the canonical entity tree from
the model alone (never from the text) - this is the reference answer for C01/C03/C04/C14.

Node kinds
----------
project  {"files": [file]}
file     {"path": "src/a.f90", "form": "free"|"fixed", "units": [unit], "doc": [...]}
unit     module | submodule | program | subroutine | function | blockdata   (see gen.py)
decl     var | type | interface | enum | common | namelist
"""
from __future__ import annotations

import copy
import re

# ----------------------------------------------------------------------------- helpers
INTRINSIC_TYPES = ["integer", "real", "double precision", "complex", "double complex", "logical", "character"]


def lname(s):
    return s.lower() if isinstance(s, str) else s


import re as _re
TRACER = _re.compile(r"z[qmsc]\d+x\d+w\d+")      # q body, m metadata value, s summary, c ordinary comment (never in docs)


def docwords(doc):
    """Tracer tokens of a doc comment (list of lines): body tokens (zq...) in order, followed by
    the *sorted* metadata tokens (zm... values, zs... summary): metadata has no order."""
    out = []
    for line in doc or []:
        out.extend(TRACER.findall(line))
    return [t for t in out if t[1] == "q"] + sorted(t for t in out if t[1] != "q")


def squash(s):
    """Lower-case and remove blanks outside character literals (canonical form of expressions)."""
    if s is None:
        return None
    s = str(s)
    out = []
    i, n = 0, len(s)
    while i < n:
        c = s[i]
        if c in "'\"":
            j = i + 1
            while j < n:
                if s[j] == c:
                    if j + 1 < n and s[j + 1] == c:
                        j += 2
                        continue
                    break
                j += 1
            out.append(s[i:j + 1])
            i = j + 1
        elif c in " \t\xa0":
            i += 1
        else:
            out.append(c.lower())
            i += 1
    return "".join(out)


# ----------------------------------------------------------------------------- canonical tree from the model
def canon_typespec(ts):
    base = ts["base"].lower()
    d = {"vartype": base, "kind": None, "strlen": None, "proto": None}
    if base == "character":
        d["strlen"] = squash(ts.get("len")) if ts.get("len") is not None else "1"
        d["kind"] = squash(ts.get("kind"))
    elif base in ("type", "class", "procedure"):
        d["proto"] = lname(ts.get("proto")) if ts.get("proto") else None
    else:
        d["kind"] = squash(ts.get("kind"))
    return d


def canon_var(decl, ent, scope_default="public", in_type=False):
    d = canon_typespec(decl["ts"])
    attrs = set(squash(a) for a in decl.get("attrs", []))
    if decl.get("optional"):
        attrs.add("optional")
    if decl.get("parameter"):
        attrs.add("parameter")
    dim = ent.get("dim") or decl.get("dimattr")
    access = decl.get("access")
    if access == "protected":
        perm = "protected"
    elif access:
        perm = access
    else:
        perm = scope_default
    d.update({
        "kind_": "variable", "name": ent["name"].lower(), "attrs": sorted(attrs),
        "dim": squash(dim), "intent": decl.get("intent") or "",
        "initial": squash(ent.get("init")), "points": bool(ent.get("points")),
        "permission": perm,
        "doctr": docwords(next((e.get("doc") for e in decl["ents"] if e.get("doc")), None)),
    })
    return d


def _vars_of(decls, scope_default="public", in_type=False):
    out = []
    for d in decls:
        if d["d"] == "var":
            for e in d["ents"]:
                out.append(canon_var(d, e, scope_default, in_type))
    return out


def canon_proc(p, scope_default="public", in_interface=False):
    args = [a.lower() for a in p.get("args", [])]
    allvars = _vars_of(p.get("decls", []), "public")
    byname = {v["name"]: v for v in allvars}
    argrecs = []
    # dummy procedures declared through an interface body
    iface_args = {}
    for d in p.get("decls", []):
        if d["d"] == "interface" and d["form"] == "explicit":
            for b in d["bodies"]:
                if b["name"].lower() in args:
                    iface_args[b["name"].lower()] = b
    for a in args:
        if a in byname:
            argrecs.append(byname[a])
        elif a in iface_args:
            argrecs.append({"kind_": "procarg", "name": a})
        else:
            argrecs.append({"kind_": "implicit", "name": a})
    locals_ = [v for v in allvars if v["name"] not in args]
    ret = None
    if p["k"] == "function":
        rname = (p.get("result") or p["name"]).lower()
        if rname in byname:
            ret = byname[rname]
            locals_ = [v for v in locals_ if v["name"] != rname]
        elif p.get("rettype"):
            ret = dict(canon_typespec(p["rettype"]), name=rname, kind_="variable")
        else:
            ret = {"kind_": "implicit", "name": rname}
    access = p.get("access")
    d = {
        "kind_": p["k"], "name": p["name"].lower(), "args": argrecs,
        "prefix": sorted(x.lower() for x in p.get("prefix", [])),
        "bind": canon_bind(p.get("bind")), "retvar": ret,
        "permission": access or scope_default, "doctr": docwords(p.get("doc")),
    }
    d.update(canon_scope(p, "public", skip_arg_ifaces=set(iface_args), locals_override=locals_))
    return d


def canon_bind(b):
    if not b:
        return None
    s = "c"
    if b.get("name") is not None:
        s += ",name=" + b["name"]
    return squash(s)


def canon_type(t, scope_default="public"):
    comp_default = "private" if t.get("private_comps") else "public"
    bind_default = "private" if t.get("private_binds") else "public"
    comps = _vars_of(t.get("comps", []), comp_default, in_type=True)
    binds = []
    for b in t.get("binds", []):
        if b.get("generic"):
            binds.append({"name": squash(b["name"]), "generic": True, "deferred": False,
                          "targets": sorted(x.lower() for x in b["targets"]),
                          "iface": None, "attrs": [],
                          "permission": b.get("access") or bind_default, "doctr": docwords(b.get("doc"))})
        else:
            binds.append({"name": b["name"].lower(), "generic": False, "deferred": bool(b.get("deferred")),
                          "targets": [(b.get("target") or b["name"]).lower()],
                          "iface": lname(b.get("iface")), "attrs": sorted(squash(a) for a in b.get("attrs", [])),
                          "permission": b.get("access") or bind_default, "doctr": docwords(b.get("doc"))})
    attrs = []
    if t.get("abstract"):
        attrs.append("abstract")
    if t.get("bind_c"):
        attrs.append("bind(c)")
    return {
        "kind_": "type", "name": t["name"].lower(), "extends": lname(t.get("extends")),
        "attrs": sorted(attrs), "sequence": bool(t.get("sequence")),
        "components": sorted(comps, key=lambda v: v["name"]),
        "binds": sorted(binds, key=lambda b: b["name"]),
        "finals": sorted(x.lower() for x in t.get("finals", [])),
        "permission": t.get("access") or scope_default, "doctr": docwords(t.get("doc")),
    }


def canon_enum(e):
    """Enumerators without a value get the previous value + 1, starting from 0 (F2008 4.6)."""
    out, prev = [], -1
    for n, v in e["items"]:
        if v is None:
            prev += 1
            out.append({"name": n.lower(), "value": str(prev)})
        else:
            out.append({"name": n.lower(), "value": squash(v)})
            m_ = re.match(r"^\s*([+-]?\d+)(?:_\w+)?\s*$", v)       # an integer literal, with or without kind suffix
            prev = int(m_.group(1)) if m_ else None
    return out


def strip_unclaimed_permissions(tree):
    """Accessibility is a property of module-level entities, type components and type-bound
    procedures (C04).  Everything else (locals, dummies, results, internal procedures,
    interface-body contents, entities of programs / external procedures / block data) has
    no accessibility in Fortran, so `permission` is not compared there."""
    def clear(node):
        if isinstance(node, dict):
            node.pop("permission", None)
            for v in node.values():
                clear(v)
        elif isinstance(node, list):
            for v in node:
                clear(v)

    def module_level(u):
        for key in ("procs", "ifprocs", "absinterfaces"):
            for p in u.get(key, []):
                for k, v in p.items():
                    if k != "permission":
                        clear(v)
        for i in u.get("interfaces", []):
            # (a body of a generic interface is a procedure of the module: it has an accessibility of its own)
            for b in i.get("bodies") or []:
                for k, v in b.items():
                    if k != "permission":
                        clear(v)
        for t in u.get("types", []):
            pass        # components and bindings keep their permission

    for units in tree.values():
        for u in units:
            if u.get("kind_") in ("module", "submodule"):
                module_level(u)
            else:
                clear(u)
    return tree


def canon_scope(u, scope_default, skip_arg_ifaces=(), locals_override=None):
    """Children of a scoping unit (module, program, procedure, block data)."""
    decls = u.get("decls", [])
    d = {}
    vs = locals_override if locals_override is not None else _vars_of(decls, scope_default)
    d["variables"] = sorted(vs, key=lambda v: v["name"])
    d["types"] = sorted((canon_type(t, scope_default) for t in decls if t["d"] == "type"),
                        key=lambda t: t["name"])
    generics, absints, ifprocs = [], [], []
    for i in decls:
        if i["d"] != "interface":
            continue
        perm = i.get("access") or scope_default
        if i["form"] == "generic":
            generics.append({
                "kind_": "interface", "name": squash(i["name"]),
                "modprocs": sorted(x.lower() for x in i.get("modprocs", [])),
                # (a specific procedure has its own accessibility: its access statement, else the module's default -
                #  not the generic name's)
                "bodies": sorted((canon_proc(b, scope_default, True) for b in i.get("bodies", [])), key=lambda p: p["name"]),
                "permission": perm, "doctr": docwords(i.get("doc")),
            })
        elif i["form"] == "abstract":
            for b in i["bodies"]:
                absints.append(dict(canon_proc(b, perm, True), permission=b.get("access") or perm))
        else:
            for b in i["bodies"]:
                if b["name"].lower() in skip_arg_ifaces:
                    continue
                ifprocs.append(dict(canon_proc(b, perm, True), permission=b.get("access") or perm))
    d["interfaces"] = sorted(generics, key=lambda x: x["name"])
    d["absinterfaces"] = sorted(absints, key=lambda x: x["name"])
    d["ifprocs"] = sorted(ifprocs, key=lambda x: x["name"])
    d["enums"] = sorted((canon_enum(e) for e in decls if e["d"] == "enum"),
                        key=lambda e: e[0]["name"] if e else "")
    commons = []
    for c in decls:
        if c["d"] == "common":
            for name, vars_ in c["blocks"]:
                commons.append({"name": (name or "").lower(), "vars": [v.lower() for v in vars_],
                                "doctr": docwords(c.get("doc"))})
    d["commons"] = sorted(commons, key=lambda c: (c["name"], c["vars"]))
    d["namelists"] = sorted(({"name": n["name"].lower(), "vars": [v.lower() for v in n["vars"]],
                              "doctr": docwords(n.get("doc"))}
                             for n in decls if n["d"] == "namelist"), key=lambda n: n["name"])
    d["procs"] = sorted((canon_proc(p, scope_default) for p in u.get("procs", []) if p["k"] in ("subroutine", "function")),
                        key=lambda p: p["name"])
    d["modprocs"] = sorted(({"kind_": "modproc", "name": p["name"].lower()} for p in u.get("procs", [])
                            if p["k"] == "modproc"), key=lambda p: p["name"])
    d["uses"] = sorted(set(x["module"].lower() for x in u.get("uses", [])))
    return d


def canon_unit(u):
    k = u["k"]
    if k in ("subroutine", "function"):
        return canon_proc(u, "public")
    d = {"kind_": k, "name": (u.get("name") or "").lower(), "doctr": docwords(u.get("doc"))}
    if k == "module":
        default = u.get("default_access") or "public"
        d.update(canon_scope(u, default))
    elif k == "submodule":
        d["ancestor"] = u["ancestor"].lower()
        d["parent"] = lname(u.get("parent"))
        d.update(canon_scope(u, "private"))
    elif k == "program":
        d.update(canon_scope(u, "public"))
    elif k == "blockdata":
        sc = canon_scope(u, "public")
        d.update({"variables": sc["variables"], "types": sc["types"], "commons": sc["commons"], "uses": sc["uses"]})
    return d


def canon_project(project):
    out = {}
    for f in project["files"]:
        out[f["path"]] = sorted((canon_unit(u) for u in f["units"]), key=lambda u: (u["kind_"], u["name"]))
    return strip_unclaimed_permissions(out)


# ----------------------------------------------------------------------------- diff with signatures
def diff(expected, observed, path="", out=None, limit=40):
    """Recursive comparison of canonical trees -> list of (signature, message)."""
    if out is None:
        out = []
    if len(out) >= limit:
        return out
    if isinstance(expected, dict) and isinstance(observed, dict):
        kind = expected.get("kind_", observed.get("kind_", ""))
        for k in sorted(set(expected) | set(observed)):
            if k not in observed:
                out.append((f"{kind}.{k}:missing-field", f"{path}: field {k} missing in FORD tree"))
            elif k not in expected:
                continue
            else:
                diff(expected[k], observed[k], f"{path}/{k}" if path else k, out, limit)
        return out
    if isinstance(expected, list) and isinstance(observed, list):
        named = all(isinstance(x, dict) and "name" in x for x in expected + observed)
        leaf = path.rsplit("/", 1)[-1]
        if named and leaf not in ("args",):
            # positional pairing by name, tolerant of duplicates
            exp = {}
            for x in expected:
                exp.setdefault(x["name"], []).append(x)
            obs = {}
            for x in observed:
                obs.setdefault(x["name"], []).append(x)
            for n in sorted(set(exp) | set(obs)):
                e, o = exp.get(n, []), obs.get(n, [])
                for i in range(max(len(e), len(o))):
                    if i >= len(o):
                        out.append((f"missing:{leaf}", f"{path}: declared {leaf[:-1] if leaf.endswith('s') else leaf} "
                                                       f"'{n}' is not reported"))
                    elif i >= len(e):
                        out.append((f"extra:{leaf}", f"{path}: '{n}' reported but not declared "
                                                     f"({'duplicate' if e else 'spurious'}): {str(o[i])[:200]}"))
                    else:
                        diff(e[i], o[i], f"{path}[{n}]", out, limit)
            return out
        if len(expected) != len(observed):
            out.append((f"{leaf}:length", f"{path}: expected {expected!r} got {observed!r}"[:600]))
            return out
        for i, (e, o) in enumerate(zip(expected, observed)):
            diff(e, o, f"{path}[{i}]", out, limit)
        return out
    if expected != observed:
        # signature: the field name (last path element without index) qualified by entity kind
        field = re.sub(r"\[.*?\]", "", path.rsplit("/", 1)[-1])
        parent = re.sub(r"\[.*?\]", "", path.rsplit("/", 2)[-2]) if path.count("/") >= 1 else ""
        out.append((f"{parent}.{field}", f"{path}: expected {expected!r} got {observed!r}"[:600]))
    return out
