"""Byte-driven structured generation ("data provider" layer).

All random choices of a generator are decoded from one Hypothesis-supplied byte string, so
generation costs one cheap draw per case, shrinking works (fewer / smaller bytes decode to
simpler cases: byte 0 always selects the first = simplest alternative, and an exhausted
buffer yields zeros), replay is exact, and the same decoder can sit behind atheris.
"""
from hypothesis import strategies as st


class Chooser:
    __slots__ = ("d", "i", "n")

    def __init__(self, data: bytes):
        self.d = data
        self.i = 0
        self.n = len(data)

    def byte(self) -> int:
        if self.i < self.n:
            b = self.d[self.i]
            self.i += 1
            return b
        return 0

    def int(self, n: int) -> int:
        """uniform-ish in 0..n-1; 0 is the simplest"""
        if n <= 1:
            return 0
        if n <= 256:
            return self.byte() % n
        return ((self.byte() << 8) | self.byte()) % n

    def count(self, lo: int, hi: int) -> int:
        return lo + self.int(hi - lo + 1)

    def bool(self, num: int = 1, den: int = 2) -> bool:
        """True with probability num/den; byte 0 -> False"""
        return (self.byte() % den) >= den - num

    def choice(self, seq):
        return seq[self.int(len(seq))]

    def weighted(self, pairs):
        """pairs: [(weight, value)...]; first entry is the simplest"""
        total = sum(w for w, _ in pairs)
        k = self.int(total)
        for w, v in pairs:
            if k < w:
                return v
            k -= w
        return pairs[-1][1]

    def subset(self, seq, num=1, den=2):
        return [x for x in seq if self.bool(num, den)]

    def shuffle(self, seq):
        seq = list(seq)
        for i in range(len(seq) - 1, 0, -1):
            j = self.int(i + 1)
            seq[i], seq[j] = seq[j], seq[i]
        return seq

    def exhausted(self) -> bool:
        return self.i >= self.n


def bytes_strategy(min_size=96, max_size=768):
    return st.binary(min_size=min_size, max_size=max_size)


def from_bytes(gen, min_size=96, max_size=768):
    """Strategy of gen(Chooser(bytes))."""
    return bytes_strategy(min_size, max_size).map(lambda b: gen(Chooser(b)))
