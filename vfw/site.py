"""Whole-site observation: run the real `ford.main` in-process (or `python -m ford` in a
subprocess) and index everything it wrote: ids per page, links per page (HTML and inline
SVG), visible text per page with the raw source listing separated out, the search database.
"""
from __future__ import annotations

import contextlib
import io
import json
import os
import re
import subprocess
import sys
from html.parser import HTMLParser
from pathlib import Path
from urllib.parse import unquote, urlsplit

from vfw import fordapi

LINK_ATTRS = ("href", "src", "action", "xlink:href", "data", "poster")
EXTERNAL = ("http:", "https:", "mailto:", "javascript:", "data:", "ftp:", "//")


def project_file(options: dict, body: str = "") -> str:
    """Markdown project file with a metadata block."""
    lines = ["---"]
    for k, v in options.items():
        if isinstance(v, bool):
            v = "true" if v else "false"
        if isinstance(v, (list, tuple)):
            if not v:
                continue
            lines.append(f"{k}: {v[0]}")
            for x in v[1:]:
                lines.append(f"    {x}")
        else:
            lines.append(f"{k}: {v}")
    lines.append("---")
    lines.append("")
    lines.append(body)
    return "\n".join(lines) + "\n"


CAPTURED = {}      # "docs": the ford.output.Documentation instance of the last build (project, pages ...)


def build_site(root: Path, project_md: str = "project.md", cli=None, graphs_real=False, cwd=None, argv=None):
    """Run FORD on root/project_md in this process.  -> (settings, captured output)
    Raises whatever escapes ford.main (SystemExit included).  The Documentation object that
    ford.main builds is kept in CAPTURED["docs"] (observation only)."""
    import ford
    import ford.output
    fordapi.reset_global_state()
    CAPTURED.clear()
    orig_init = ford.output.Documentation.__init__

    def spy(self, *a, **k):
        CAPTURED["docs"] = self
        return orig_init(self, *a, **k)
    ford.output.Documentation.__init__ = spy
    pfile = root / project_md
    text = pfile.read_text(encoding="utf-8")
    buf = io.StringIO()
    old_cwd = os.getcwd()
    cli = dict(cli or {})
    pdir = pfile.parent          # options are relative to the project file (ford.initialize does the same)
    try:
        if cwd is None:
            os.chdir(pdir)
        else:
            # as `ford some/dir/project.md` started from `cwd`: the project directory is a relative path
            os.chdir(cwd)
            pdir = Path(os.path.relpath(pdir, cwd))
        with contextlib.redirect_stdout(buf), contextlib.redirect_stderr(buf):
            if argv is not None:
                # the real command-line front end (argparse + initialize), as `ford <argv> project.md`
                old_argv = sys.argv
                sys.argv = ["ford"] + list(argv) + [os.path.join(str(pdir), pfile.name) if cwd is not None else pfile.name]
                try:
                    data, docs = ford.initialize()
                finally:
                    sys.argv = old_argv
            else:
                docs, data = ford.load_settings(text, pdir, pfile.name)
                data, docs = ford.parse_arguments(cli, docs, data, pdir)
            ford.main(data, docs)
    finally:
        os.chdir(old_cwd)
        ford.output.Documentation.__init__ = orig_init
    return data, buf.getvalue()


def build_site_subprocess(root: Path, project_md: str = "project.md", args=(), env=None, timeout=600):
    e = dict(os.environ, FORD_DEBUGGING="1")
    e["PYTHONPATH"] = fordapi.REPO + os.pathsep + e.get("PYTHONPATH", "")
    e.update(env or {})
    p = subprocess.run([sys.executable, "-m", "ford", project_md, *args], cwd=root, env=e,
                       capture_output=True, text=True, timeout=timeout)
    return p.returncode, p.stdout + p.stderr


# ----------------------------------------------------------------------------- HTML indexing
VOID = {"area", "base", "br", "col", "embed", "hr", "img", "input", "link", "meta", "param", "source", "track", "wbr"}


class _PageParser(HTMLParser):
    def __init__(self):
        super().__init__(convert_charrefs=True)
        self.ids = []
        self.links = []           # (attr, url, tag, in_svg)
        self.text = []            # visible text outside the raw source listing
        self.src_text = []        # text of highlighted raw source (div.hl.codehilite)
        self.stack = []
        self.svg = 0
        self.skip = 0             # inside <script>/<style>
        self.src_level = None     # stack depth at which the source listing started
        self.skeleton = []        # tag structure (for C18)

    def handle_starttag(self, tag, attrs):
        a = dict(attrs)
        if tag not in VOID:
            self.stack.append(tag)
        if self.src_level is None:
            self.skeleton.append(tag)
        if tag == "svg":
            self.svg += 1
        if tag in ("script", "style"):
            self.skip += 1
        cls = (a.get("class") or "").split()
        if self.src_level is None and tag == "div" and "hl" in cls and "codehilite" in cls:
            self.src_level = len(self.stack)
        for key in ("id", "name"):
            if a.get(key) and (key == "id" or tag == "a"):
                self.ids.append(a[key])
        for key in LINK_ATTRS:
            if a.get(key) is not None:
                self.links.append((key, a[key], tag, bool(self.svg)))

    def handle_startendtag(self, tag, attrs):
        self.handle_starttag(tag, attrs)
        if tag not in VOID:
            self.handle_endtag(tag)

    def handle_endtag(self, tag):
        if tag in VOID:
            return
        if tag == "svg" and self.svg:
            self.svg -= 1
        if tag in ("script", "style") and self.skip:
            self.skip -= 1
        if tag in self.stack:
            while self.stack and self.stack[-1] != tag:
                self.stack.pop()
            self.stack.pop()
        if self.src_level is not None and len(self.stack) < self.src_level:
            self.src_level = None
        if self.src_level is None:
            self.skeleton.append("/" + tag)

    def handle_data(self, data):
        if self.skip:
            return
        (self.src_text if self.src_level is not None else self.text).append(data)


class Page:
    def __init__(self, path: Path, rel: str):
        self.rel = rel
        raw = path.read_text(encoding="utf-8", errors="replace")
        self.raw = raw
        p = _PageParser()
        p.feed(raw)
        self.skeleton = p.skeleton
        self.ids = p.ids
        self.links = p.links
        self.text = " ".join(p.text)
        self.src_text = " ".join(p.src_text)


class SiteIndex:
    def __init__(self, outdir: Path):
        self.outdir = Path(outdir)
        self.pages = {}
        self.files = set()
        for f in sorted(self.outdir.rglob("*")):
            if f.is_file():
                rel = f.relative_to(self.outdir).as_posix()
                self.files.add(rel)
                if rel.endswith(".html"):
                    self.pages[rel] = Page(f, rel)
        self.search = []
        sp = self.outdir / "search" / "search_database.json"
        if sp.exists():
            try:
                raw = sp.read_text(encoding="utf-8").strip()
                raw = re.sub(r"^var\s+\w+\s*=\s*", "", raw).rstrip(";")
                data = json.loads(raw)
                self.search = data if isinstance(data, list) else data.get("pages", data.get("docs", []))
            except Exception as e:      # noqa
                self.search = [{"error": str(e)}]

    # ---- link checking
    def check_links(self, allow_missing_prefixes=()):
        """-> list of (kind, page, url, detail) problems for internal links."""
        problems = []
        for rel, page in self.pages.items():
            base = os.path.dirname(rel)
            for attr, url, tag, in_svg in page.links:
                pr = self._check_url(rel, base, url)
                if pr:
                    problems.append((pr[0], rel, url, pr[1] + (" [svg]" if in_svg else f" [{tag} {attr}]")))
        for entry in self.search:
            url = entry.get("url") or entry.get("location")
            if url is None:
                continue
            pr = self._check_url("search/search_database.json", "", url.lstrip("./") if False else url, from_root=True)
            if pr:
                problems.append((pr[0], "search_database", url, pr[1]))
        return problems

    def _check_url(self, rel, base, url, from_root=False):
        u = url.strip()
        if u == "" or u == "#" or u.startswith(EXTERNAL):
            return None
        parts = urlsplit(u)
        if parts.scheme:
            if parts.scheme == "file":
                return ("absolute", f"file: URL")
            return None
        path = unquote(parts.path)
        frag = unquote(parts.fragment)
        if path.startswith("/"):
            return ("absolute", "absolute path")
        if path == "":
            target = rel
        else:
            target = os.path.normpath(os.path.join(base, path)).replace("\\", "/")
        if target.startswith(".."):
            return ("escapes", f"points outside the output directory ({target})")
        full = self.outdir / target
        if full.is_dir():
            if (full / "index.html").exists():
                target = target.rstrip("/") + "/index.html"
            else:
                return ("missing", f"directory without index.html: {target}")
        elif not full.exists():
            return ("missing", f"no such file: {target}")
        if frag and target.endswith(".html"):
            page = self.pages.get(target)
            # (browsers try the fragment as written first, then percent-decoded)
            if page is not None and frag not in page.ids and parts.fragment not in page.ids:
                # line anchors of the source listing are generated by pygments (ln-N)
                if re.fullmatch(r"ln-\d+", frag):
                    return None
                return ("fragment", f"#{frag} not defined in {target}")
        return None

    # ---- text
    def pages_with(self, word, include_source_listing=False):
        out = []
        for rel, page in self.pages.items():
            if word in page.text or (include_source_listing and word in page.src_text):
                out.append(rel)
        return out

    def search_entries_with(self, word):
        out = []
        for e in self.search:
            if word in json.dumps(e):
                out.append(e.get("url") or e.get("location") or "?")
        return out
