#!/bin/sh
# Offline setup: make sure hypothesis is importable from /venv (FORD itself is installed
# editable from /repo, so checks always run the current working tree) and put the optional
# tools (atheris for the thorough byte-level tier) into ./.deps from the local wheelhouse.
set -u
cd "$(dirname "$0")"
WH=/opt/veriftools/wheels
/venv/bin/python -c "import hypothesis" 2>/dev/null || \
  /venv/bin/pip install --no-index --find-links "$WH" hypothesis >/dev/null 2>&1 || \
  { echo "setup: cannot install hypothesis" >&2; exit 1; }
mkdir -p .deps
/venv/bin/python -c "import sys; sys.path.append('.deps'); import atheris" 2>/dev/null || \
  /venv/bin/pip install --no-index --find-links "$WH" --target .deps atheris >/dev/null 2>&1 || \
  echo "setup: atheris not installed (thorough byte-level tier will be skipped)" >&2
/venv/bin/python -c "import ford, hypothesis, bs4; print('setup ok: ford from', ford.__file__, 'hypothesis', hypothesis.__version__)"
